(* The `car` sub-commands (cmd/car/{index,filter,get,detach,concat,list,root,verify,inspect}.go and
   cmd/car/lib/{filter,verify,inspect,root}.go) as compositions of the layer-A functions.
   A file is a byte string; a missing file is None.  Every command returns whether it exited 0
   and what it left on disk / printed.  Executable; proofs are in proofs/Cli*.v.

   Repaired behaviour is modelled at three places (each a delivered fix, see known_findings.d/C19.json):
     lib.VerifyCar     -- an IndexOffset of 0 is not compared with the end of the data
     lib.InspectCar    -- the CARv1 --full post-check compares how far Inspect read with the file size
     car index         -- identity CIDs are not put into the index (as LoadIndex / GenerateIndex do) *)
From GoCar Require Import Bytes Varint Cid Header Frame V2Header Scan Index Store Traversal ExtractFs.

Definition zero_v2hdr : v2hdr := mkv2 0 0 0 0 0.
Definition max_index_cid : N := 2048.          (* carv2.DefaultMaxIndexCidSize *)

(* what carv2.NewReader learns about a file *)
Record creader := mkcr { cr_ver : N; cr_hdr : v2hdr }.

(* Reader.DataReader: io.NewSectionReader(r, DataOffset, DataSize) for CARv2, the whole file for CARv1 *)
Definition data_view (r : creader) (file : bytes) : bytes :=
  if cr_ver r =? 2 then take (h_dsize (cr_hdr r)) (drop (h_doff (cr_hdr r)) file) else file.

(* absolute file offset at which the data reader starts (overflow test of the seeking walkers) *)
Definition data_base_of (r : creader) : N := if cr_ver r =? 2 then h_doff (cr_hdr r) else 0.

(* lib.matchFilter: the CID set is a Go map keyed by the CID's bytes *)
Definition cid_in (sel : list bytes) (c : bytes) : bool := existsb (bytes_eqb c) sel.
Definition match_filter (sel : list bytes) (inv : bool) (c : bytes) : bool :=
  if cid_in sel c then negb inv else inv.

(* options lib.FilterCar hands to blockstore.OpenReadWrite: the defaults, WriteAsCarV1 for --version 1 *)
Definition filter_opts (ver : N) : wopts :=
  mkwopts 0 0 codec_mh_sorted false max_index_cid false false false (ver =? 1) default_maxh default_maxs.

(* --codec as the harness passes it: 0 flag absent, 1 "none", 2 "car-index-sorted",
   3 "car-multihash-index-sorted", anything else = a codec index.New refuses *)
Definition codec_is_none (k : N) : bool := k =? 1.
Definition codec_set (k : N) : bool := negb (k =? 0).
Definition codec_of_kind (k : N) : option N :=
  if (k =? 0) || (k =? 3) then Some codec_mh_sorted
  else if k =? 2 then Some codec_sorted
  else None.

(* statistics Reader.Inspect gathers per section: (cid, cid length, block length), newest first *)
Definition isec := (bytes * N * N)%type.

Record istats := mkis {
  is_ver : N; is_hdr : v2hdr; is_roots : list bytes; is_secs : list isec (* in file order *);
  is_idx_codec : N; is_end : N (* offset in the data view where the section loop stopped *) }.

Definition sum_N (l : list N) : N := fold_left N.add l 0.
Definition min_N (l : list N) : N := match l with [] => 0 | x :: t => fold_left N.min t x end.
Definition max_N (l : list N) : N := fold_left N.max l 0.
Definition avg_N (l : list N) : N := match l with [] => 0 | _ => sum_N l / N.of_nat (length l) end.

Definition is_count (s : istats) : N := N.of_nat (length (is_secs s)).
Definition is_roots_present (s : istats) : bool :=
  forallb (fun r => existsb (fun x => bytes_eqb r (fst (fst x))) (is_secs s)) (is_roots s).

Section Cli.
  Variable hok : bytes -> bytes -> option bool.
  Variable hdrdec : bytes -> option (list bytes * N).

  (* ---- carv2.NewReader / OpenReader ------------------------------------------------------------ *)
  (* the v2 header is read through io.NewSectionReader(r, 11, 40) *)
  Definition new_reader (file : bytes) : res creader :=
    match read_header hdrdec default_maxh file with
    | Err e => Err e
    | Ok (_, v, _, used) =>
      if v =? 1 then Ok (mkcr 1 zero_v2hdr)
      else if v =? 2 then
        (* repaired (66c8f5b): the pragma must be exactly PragmaSize bytes *)
        if negb (used =? 11) then Err EOther else
        match read_v2hdr (take 40 (drop 11 file)) with
        | Err e => Err e
        | Ok (h, _) => Ok (mkcr 2 h)
        end
      else Err EOther
    end.

  (* Reader.Roots *)
  Definition reader_roots (r : creader) (file : bytes) : res (list bytes) :=
    match read_header hdrdec default_maxh (data_view r file) with
    | Err e => Err e
    | Ok (roots, _, _, _) => Ok roots
    end.

  (* ---- Reader.Inspect as lib.InspectCar calls it (ZeroLengthSectionAsEOF(true)) ---------------- *)
  (* position-based over the data view; Ok (sections newest first, position where the loop ended) *)
  Fixpoint inspect_loop (fuel : nat) (full : bool) (dv : bytes) (pos : N) (acc : list isec)
    : res (list isec * N) :=
    match fuel with
    | O => Err EFuel
    | S f =>
      match read_uv (drop pos dv) with
      | VEof => Ok (acc, pos)
      | VUnexpectedEof => Err EUnexpectedEof
      | VOverflow | VNotMinimal => Err EOther
      | VOk len r1 n1 =>
        if len =? 0 then Ok (acc, pos + n1)
        else if default_maxs <? len then Err ESectionTooLarge
        else
          match cid_from_reader r1 with
          | CfrEof => Err EUnexpectedEof    (* repaired (ea7bf8c): was CidFromReader's bare io.EOF *)
          | CfrErr _ => Err EOther
          | CfrOk n c p rest =>
            if len <? n then Err EOther          (* section length shorter than CID length *)
            else
              let bl := len - n in
              if full then
                (* repaired (ea7bf8c): the io.LimitedReader must be drained, a short stream is
                   io.ErrUnexpectedEOF (it used to be hashed as it was) *)
                if blen rest <? bl then Err EUnexpectedEof else
                let data := take bl rest in
                match hash_matches hok c p data with
                | None => Err EOracleMiss
                | Some false => Err EOther
                | Some true => inspect_loop f full dv (pos + n1 + n + blen data) ((c, n, bl) :: acc)
                end
              else
                (* dr.Seek(blockLength, io.SeekCurrent); its int64 overflow test cannot fire: the
                   section length is at most MaxAllowedSectionSize here *)
                inspect_loop f full dv (pos + n1 + len) ((c, n, bl) :: acc)
          end
      end
    end.

  Definition reader_inspect (full : bool) (r : creader) (file : bytes) : res istats :=
    let dv := data_view r file in
    match read_header hdrdec default_maxh dv with
    | Err e => Err e
    | Ok (roots, hv, _, used) =>
      (* repaired (91b302e): a CARv2 whose payload header is not version 1 is refused *)
      if (cr_ver r =? 2) && negb (hv =? 1) then Err EOther else
      match inspect_loop (S (length dv)) full dv used [] with
      | Err e => Err e
      | Ok (acc, endpos) =>
        let st := mkis (cr_ver r) (cr_hdr r) roots (rev acc) 0 endpos in
        if (cr_ver r =? 2) && has_index (cr_hdr r) then
          (* index.ReadCodec(IndexReader): one uvarint at IndexOffset; nothing else is looked at *)
          match read_uv (drop (h_ioff (cr_hdr r)) file) with
          | VOk codec _ _ => Ok (mkis (cr_ver r) (cr_hdr r) roots (rev acc) codec endpos)
          | VEof => Err EEof
          | VUnexpectedEof => Err EUnexpectedEof
          | VOverflow | VNotMinimal => Err EOther
          end
        else Ok st
      end
    end.

  (* lib.InspectCar: for a CARv1 under --full nothing may follow the point where Inspect stopped
     (repaired: the unrepaired code read one byte from the *os.File, whose offset ReadAt never moves,
     and so failed on every CARv1) *)
  Definition inspect_car (full : bool) (file : bytes) : res istats :=
    match new_reader file with
    | Err e => Err e
    | Ok r =>
      match reader_inspect full r file with
      | Err e => Err e
      | Ok st =>
        if (is_ver st =? 1) && full && (is_end st <? blen file) then Err EOther else Ok st
      end
    end.

  (* ---- lib.VerifyCar ------------------------------------------------------------------------------ *)
  Definition verify_header_ok (r : creader) (file : bytes) : bool :=
    if cr_ver r =? 2 then
      let h := cr_hdr r in
      let length_to_index := wrap64 (51 + h_dsize h) in     (* PragmaSize + HeaderSize + DataSize: no padding *)
      if h_dsize h =? 0 then false
      else if (length_to_index <? blen file) && (h_ioff h =? 0) then false
      else if h_doff h <? 51 then false
      else if negb (h_ioff h =? 0) && (h_ioff h <? length_to_index) then false   (* repaired: IndexOffset != 0 && *)
      else true
    else true.

  Definition idx_knows (i : index) (c : bytes) : bool :=
    match cid_parse c with
    | Some p => is_identity p ||
                match idx_getall i (c_mhcode p) (c_digest p) with [] => false | _ => true end
    | None => false
    end.

  Definition verify_car (file : bytes) : res unit :=
    match new_reader file with
    | Err e => Err e
    | Ok r =>
      match reader_roots r file with
      | Err e => Err e
      | Ok roots =>
        match roots with
        | [] => Err EOther                                     (* no roots listed in car header *)
        | _ =>
          if negb (verify_header_ok r file) then Err EOther else
          match br_read_all hok hdrdec default_ropts file with
          | Err e => Err e
          | Ok (_, _, sc) =>
            match s_end sc with
            | EEof =>
              let cids := map fst (s_blocks sc) in
              if negb (forallb (cid_in cids) roots) then Err EOther     (* root not present as a block *)
              else if (cr_ver r =? 2) && has_index (cr_hdr r) then
                (* IndexReader over the mmap: an offset beyond the file is an error, not EOF *)
                if blen file <? h_ioff (cr_hdr r) then Err EOther else
                match idx_read (drop (h_ioff (cr_hdr r)) file) with
                | Err e => Err e
                | Ok (i, _) => if forallb (idx_knows i) cids then Ok tt else Err ENotFound
                end
              else Ok tt
            | e => Err e
            end
          end
        end
      end
    end.

  (* ---- lib.FilterCar -------------------------------------------------------------------------------- *)
  (* bs.Put one block at a time; the first error stops the command *)
  Fixpoint put_each (s : wstate) (blks : list block) : wstate * bool :=
    match blks with
    | [] => (s, true)
    | b :: t =>
      match bs_put_many s [b] with
      | (s', ONil) => put_each s' t
      | (s', _) => (s', false)
      end
    end.

  (* result: exit 0?, the output file afterwards *)
  Definition filter_car (sel : list bytes) (inv : bool) (ver : N) (app : bool)
             (infile : bytes) (outf : option bytes) : bool * option bytes :=
    match br_open hdrdec default_ropts infile with
    | Err _ => (false, outf)
    | Ok (_, roots, s, _, _) =>
      if negb ((ver =? 1) || (ver =? 2)) then (false, outf) else
      let o := filter_opts ver in
      let opened : wstate + option bytes :=
        if app then
          if negb (ver =? 2) then inr outf else
          match outf with
          | None => inr None                                  (* carv2.OpenReader: no such file *)
          | Some f =>
            match new_reader f with
            | Err _ => inr outf
            | Ok r =>
              if negb (cr_ver r =? 2) then inr outf else
              match reader_roots r f with
              | Err _ => inr outf
              | Ok oroots =>
                match resume hdrdec KBlockstore true o oroots f [] with
                | inl st => inl st
                | inr (_, dv) => inr (Some (d_file dv))
                end
              end
            end
          end
        else
          (* an existing output is truncated to 0 first; OpenReadWrite then starts a new file *)
          match open_new KBlockstore o false (filter (match_filter sel inv) roots) [] with
          | Ok st => inl st
          | Err _ => inr (Some [])
          end in
      match opened with
      | inr f => (false, f)
      | inl st =>
        let sc := scan_all hok default_ropts s in
        let chosen := filter (fun b => match_filter sel inv (fst b)) (s_blocks sc) in
        match put_each st chosen with
        | (st1, false) => (false, Some (ws_file st1))
        | (st1, true) =>
          match s_end sc with
          | EEof =>
            match bs_finalize st1 with
            | (st2, ONil) => (true, Some (ws_file st2))
            | (st2, _) => (false, Some (ws_file st2))
            end
          | _ => (false, Some (ws_file st1))
          end
        end
      end
    end.

  (* ---- car index ------------------------------------------------------------------------------------ *)
  (* root-module carv1.ReadHeader over a bufio.Reader, keeping the header bytes *)
  Definition root_read_header (s : bytes) : res (bytes * list bytes * N * bytes) :=
    match ld_read_root s with
    | Err e => Err e
    | Ok (hb, rest) =>
      match hdrdec hb with
      | None => Err EOther
      | Some (roots, v) => Ok (hb, roots, v, rest)
      end
    end.

  (* carv1.WriteHeader of the decoded header: go-ipld-cbor keeps a nil root slice (null) apart
     from an empty one (array of 0) *)
  Definition reencode_header (hb : bytes) (roots : list bytes) (v : N) : bytes :=
    match roots with
    | [] => if bytes_eqb hb (enc_header None v) then enc_header None v else enc_header (Some []) v
    | _ => enc_header (Some roots) v
    end.

  (* the command's own section walker: copies every section to the output while recording
     (cid, offset); returns (bytes written, records, error that stopped it) *)
  Fixpoint ix_walk (fuel : nat) (s : bytes) (off : N) : bytes * list irec * option err :=
    match fuel with
    | O => ([], [], Some EFuel)
    | S f =>
      match read_uv s with
      | VEof => ([], [], None)
      | VUnexpectedEof => ([], [], Some EUnexpectedEof)
      | VOverflow | VNotMinimal => ([], [], Some EOther)
      | VOk len r1 n1 =>
        let w := put_uv len in                                (* varint.ToUvarint(sectionLen) *)
        if len =? 0 then (w, [], None)                        (* null padding: stop, after writing the 0 *)
        else
          match cid_from_reader r1 with
          | CfrEof => (w, [], Some EEof)
          | CfrErr _ => (w, [], Some EOther)
          | CfrOk n c p rest =>
            (* io.CopyN(out, br, sectionLen - cidLen): a negative count copies nothing and is no error *)
            let want := len - n in
            let data := take want rest in
            let recs := if is_identity p then [] else [mkrec c (c_mhcode p) (c_digest p) off] in
            if blen data <? want then (w ++ c ++ data, recs, Some EEof)
            else
              let '(out, more, e) := ix_walk f (drop want rest) (off + len + uv_size len) in
              (w ++ c ++ data ++ out, recs ++ more, e)
          end
      end
    end.

  (* car index [--codec k] [--version ver] in out : exit 0?, out *)
  Definition index_car (k : N) (ver : N) (file : bytes) : bool * option bytes :=
    match new_reader file with
    | Err _ => (false, None)
    | Ok r =>
      let dv := data_view r file in
      if ver =? 1 then
        if codec_set k && negb (codec_is_none k) then (false, None)
        else (true, Some dv)
      else if negb (ver =? 2) then (false, None)
      else
        let dsize := if cr_ver r =? 1 then blen file else h_dsize (cr_hdr r) in
        if codec_is_none k then
          (true, Some (pragma ++ enc_v2hdr (mkv2 0 0 51 dsize 0) ++ dv))
        else
          match codec_of_kind k with
          | None => (false, None)                             (* index.New refuses before the output is created *)
          | Some codec =>
            match idx_new codec with
            | None => (false, None)
            | Some i0 =>
              let pre := pragma ++ enc_v2hdr (new_header dsize) in
              match root_read_header dv with
              | Err _ => (false, Some pre)
              | Ok (hb, roots, v, rest) =>
                let start := blen dv - blen rest in
                let pre2 := pre ++ ld (reencode_header hb roots v) in
                match ix_walk (S (length rest)) rest start with
                | (out, recs, Some _) => (false, Some (pre2 ++ out))
                | (out, recs, None) => (true, Some (pre2 ++ out ++ idx_write (idx_load recs i0)))
                end
              end
            end
          end
    end.

  (* ---- carv2.LoadIndex over a seekable CARv1 payload (what DataReader hands to it) ------------------- *)
  (* OpenReader / OpenReadOnly map the file (x/exp/mmap): a ReadAt at an offset beyond the end of the
     file is an error ("invalid ReadAt offset"), not io.EOF.  A seeking walker can land there when the
     last section is cut short; inside a CARv2 only below the declared end of the data. *)
  Definition mm_bad (r : creader) (file : bytes) (pos : N) : bool :=
    (blen file <? data_base_of r + pos) &&
    (if cr_ver r =? 2 then pos <? h_dsize (cr_hdr r) else true).

  (* default options: identity CIDs skipped, CIDs above MaxIndexCidSize refused, a zero-length
     section is an error; position-based because it seeks *)
  Fixpoint li_walk (fuel : nat) (bad : N -> bool) (base : N) (view : bytes) (pos : N) (acc : list irec)
    : res (list irec) :=
    match fuel with
    | O => Err EFuel
    | S f =>
      if bad pos then Err EOther else
      match read_uv (drop pos view) with
      | VEof => Ok (rev acc)
      | VUnexpectedEof => Err EUnexpectedEof
      | VOverflow | VNotMinimal => Err EOther
      | VOk len r1 n1 =>
        if len =? 0 then Err EOther else
        match cid_from_reader r1 with
        | CfrEof => Err EEof
        | CfrErr _ => Err EOther
        | CfrOk n c p _ =>
          if negb (is_identity p) && (max_index_cid <? n) then Err ECidTooLarge else
          let acc' := if is_identity p then acc else mkrec c (c_mhcode p) (c_digest p) pos :: acc in
          if two63 <=? base + pos + n1 + len then Err EOther
          else li_walk f bad base view (pos + n1 + len) acc'
        end
      end
    end.

  (* records of a CARv1 payload; a payload whose own header says version 2 (a nested CARv2) is
     outside what is modelled and reported as an error *)
  Definition load_index_records (bad : N -> bool) (base : N) (view : bytes) : res (list irec) :=
    match read_header hdrdec default_maxh view with
    | Err e => Err e
    | Ok (_, v, _, used) =>
      if v =? 1 then li_walk (S (S (length view))) bad base view used [] else Err EOther
    end.

  Definition generate_index (codec : N) (r : creader) (file : bytes) : res index :=
    match idx_new codec with
    | None => Err EOther
    | Some i0 =>
      match load_index_records (mm_bad r file) (data_base_of r) (data_view r file) with
      | Err e => Err e
      | Ok recs => Ok (idx_load recs i0)
      end
    end.

  (* car index [--codec k] create in out *)
  Definition index_create (k : N) (file : bytes) : bool * option bytes :=
    match new_reader file with
    | Err _ => (false, None)
    | Ok r =>
      (* the output is created before the codec is looked at *)
      match codec_of_kind k with
      | None => (false, Some [])
      | Some codec =>
        match generate_index codec r file with
        | Err _ => (false, Some [])
        | Ok i => (true, Some (idx_write i))
        end
      end
    end.

  (* ---- car detach-index ---------------------------------------------------------------------------- *)
  Definition detach_index (file : bytes) : bool * option bytes :=
    match new_reader file with
    | Err _ => (false, None)
    | Ok r =>
      if negb (has_index (cr_hdr r)) then (false, None)        (* also every CARv1: zero header *)
      else if blen file <? h_ioff (cr_hdr r) then (false, Some [])   (* mmap ReadAt: invalid offset *)
      else (true, Some (drop (h_ioff (cr_hdr r)) file))
    end.

  (* car detach-index list: lines "<multihash hex> <offset>" *)
  Definition detach_list (idxfile : bytes) : bool * list (bytes * N) :=
    match idx_read idxfile with
    | Err _ => (false, [])
    | Ok (IdxMh m, _) => (true, map (fun e => (mh_enc (fst (fst e)) (snd (fst e)), snd e)) (mh_foreach m))
    | Ok (IdxSorted _, _) => (false, [])                      (* not iterable *)
    end.

  (* ---- car get-block: blockstore.OpenReadOnly + Get -------------------------------------------------- *)
  Definition open_readonly_index (r : creader) (file : bytes) : res index :=
    if (cr_ver r =? 2) && has_index (cr_hdr r) then
      if blen file <? h_ioff (cr_hdr r) then Err EOther else
      match idx_read (drop (h_ioff (cr_hdr r)) file) with
      | Err e => Err e
      | Ok (i, _) => Ok i
      end
    else generate_index codec_mh_sorted r file.

  Definition get_block (file : bytes) (key : bytes) : res bytes :=
    match new_reader file with
    | Err e => Err e
    | Ok r =>
      match open_readonly_index r file with
      | Err e => Err e
      | Ok i =>
        match cid_parse key with
        | None => Err EOther
        | Some kp =>
          if is_identity kp then Ok (c_digest kp)
          else
            match find_cid (data_view r file) (idx_getall i (c_mhcode kp) (c_digest kp))
                           key kp false false default_maxs true with
            | Ok (d, _, _) => Ok d
            | Err e => Err e
            end
        end
      end
    end.

  (* ---- car list / car root ---------------------------------------------------------------------------- *)
  (* printed CIDs, and whether the scan ended cleanly *)
  Definition list_car (file : bytes) : bool * list bytes :=
    match br_read_all hok hdrdec default_ropts file with
    | Err _ => (false, [])
    | Ok (_, _, sc) => (match s_end sc with EEof => true | _ => false end, map fst (s_blocks sc))
    end.

  Definition root_car (file : bytes) : bool * list bytes :=
    match br_open hdrdec default_ropts file with
    | Err _ => (false, [])
    | Ok (_, roots, _, _, _) => (true, roots)
    end.

  (* ---- car concat --------------------------------------------------------------------------------------- *)
  (* what one input contributes: (CARv1 header bytes to write if it is the first, v2 header of the
     input, the sections copied) *)
  Definition concat_input (file : bytes) : res (bytes * v2hdr * bytes) :=
    match new_reader file with
    | Err e => Err e
    | Ok r =>
      let dv := data_view r file in
      match root_read_header dv with                           (* carv1.NewCarReader *)
      | Err e => Err e
      | Ok (hb, roots, v, _) =>
        if negb (v =? 1) then Err EOther
        else match roots with
             | [] => Err EOther                                (* "empty car, no roots" *)
             | _ =>
               let h1 := enc_header (Some roots) 1 in
               (* cv1.Seek(HeaderSize(header), SeekStart) then io.Copy *)
               Ok (ld h1, cr_hdr r, drop (ld_size (blen h1)) dv)
             end
      end
    end.

  Fixpoint concat_loop (ver : N) (first : bool) (files : list bytes) (out : bytes) : bool * bytes :=
    match files with
    | [] => (true, out)
    | f :: t =>
      match concat_input f with
      | Err _ => (false, out)
      | Ok (hdr1, h2, secs) =>
        let head :=
          if first then
            (if ver =? 2
             then enc_v2hdr (mkv2 (h_hi h2) (h_lo h2) (h_doff h2) (h_dsize h2) 0)   (* no pragma; the input's sizes *)
             else []) ++ hdr1
          else [] in
        concat_loop ver false t (out ++ head ++ secs)
      end
    end.

  (* car concat -o out [--version ver] in... (at least one input) *)
  Definition concat_car (ver : N) (files : list bytes) : bool * option bytes :=
    match files with
    | [] => (false, None)
    | _ => let '(ok, out) := concat_loop ver true files [] in (ok, Some out)
    end.
End Cli.

(* ---- car get-dag (cmd/car/get.go GetCarDag, writeCarV2, writeCarV1) ------------------------------------------ *)
(* The input is opened as a read-only blockstore; the root is the argument or the archive's single
   root.  What the traversal library then asks the store for -- the sequence of successful block
   loads of the (root, selector) walk, root first, repeats included, and whether the walk returned
   nil -- is the ORACLE (recorded by a reference walk with the configuration the command uses:
   LinkVisitOnlyOnce exactly when no --selector is given; for --version 2 trusted storage and a
   missing block skipped unless --strict; for --version 1 the root module's SelectiveCar).
   --version 2: every load is Put into a fresh default ReadWrite blockstore with the root as its
   only root (identity blocks dropped, one block per multihash), finalized when the walk succeeded.
   --version 1: SelectiveCar.Write (Traversal.sc_write): header, then every CID once in load order. *)
Definition get_dag (hdrdec : bytes -> option (list bytes * N)) (ver : N) (rootarg : option bytes)
           (loads : list block) (walk_ok : bool) (file : bytes) (outf : option bytes)
  : bool * option bytes :=
  match new_reader hdrdec file with
  | Err _ => (false, outf)
  | Ok r =>
    match open_readonly_index hdrdec r file with
    | Err _ => (false, outf)
    | Ok _ =>
      let root : option bytes :=
        match rootarg with
        | Some c => Some c
        | None => match reader_roots hdrdec r file with
                  | Ok [c] => Some c
                  | _ => None                  (* "does not have exactly one root" *)
                  end
        end in
      match root with
      | None => (false, outf)
      | Some rc =>
        if ver =? 2 then
          (* os.Remove(output); blockstore.OpenReadWrite(output, [root], AllowDuplicatePuts(false)) *)
          match open_new KBlockstore (filter_opts 2) false [rc] [] with
          | Err _ => (false, Some [])
          | Ok st =>
            match put_each st loads with
            | (st1, false) => (false, Some (ws_file st1))
            | (st1, true) =>
              if walk_ok then
                match bs_finalize st1 with
                | (st2, ONil) => (true, Some (ws_file st2))
                | (st2, _) => (false, Some (ws_file st2))
                end
              else (false, Some (ws_file st1))
            end
          end
        else if ver =? 1 then
          (* os.Create(output); car.NewSelectiveCar(..., []Dag{{root, selector}}).Write(f) *)
          let '(out, _, ok) := sc_write 0 [rc] loads walk_ok in (ok, Some out)
        else (false, outf)
      end
    end
  end.

(* ---- archives read from a pipe on standard input ---------------------------------------------------------- *)
(* `cat x | car list` / `car root` / `car debug`.  [fixed] = the delivered fix
   (notes/fixes/C19-stdin-pipe-carv2: standard input handed to the BlockReader as a plain io.Reader):
   the pipe is read sequentially and gives what the file argument gives.  fixed = false is the code
   before the fix: os.Stdin is an *os.File, so the BlockReader takes the seeking path for a CARv2
   (Seek over the data padding, even when it is 0) and a pipe refuses to seek -- a CARv2 could not be
   listed from a pipe; a CARv1 was read sequentially.
   `car inspect` goes through NewReader(io.ReaderAt): ReadAt on a pipe fails for every archive (not
   changed: it would have to buffer the whole input). *)
Definition stdin_version_ok (fixed : bool) (hdrdec : bytes -> option (list bytes * N)) (file : bytes) : bool :=
  fixed ||
  match br_open hdrdec default_ropts file with
  | Ok (v, _, _, _, _) => negb (v =? 2)
  | Err _ => true              (* the failure is the one the file argument gives too *)
  end.
Definition list_car_stdin (fixed : bool) (hok : bytes -> bytes -> option bool) (hdrdec : bytes -> option (list bytes * N))
           (file : bytes) : bool * list bytes :=
  if stdin_version_ok fixed hdrdec file then list_car hok hdrdec file else (false, []).
Definition root_car_stdin (fixed : bool) (hdrdec : bytes -> option (list bytes * N)) (file : bytes) : bool * list bytes :=
  if stdin_version_ok fixed hdrdec file then root_car hdrdec file else (false, []).
Definition inspect_car_stdin (file : bytes) : res istats := Err EOther.
(* car detach-index list from a pipe: index.Unmarshal asks the *os.File for its position
   (Seek(0, SeekCurrent)) and a pipe refuses: every index is rejected *)
Definition detach_list_stdin (idxfile : bytes) : bool * list (bytes * N) := (false, []).

(* ---- car list --unixfs (listUnixfs / printUnixFSNode) --------------------------------------------------------- *)
(* Over the abstract UnixFS DAG of ExtractFs.v (decoding dag-pb / UnixFS data and the directory / HAMT
   iteration order are the oracle, as for car extract): a depth-first listing, every directory entry's
   path (path.Join of the names from the root) before what is below it; raw leaves, files and symlinks
   print nothing more; a block that is not in the archive ends the command with an error after its
   own path has been printed.  Names are single clean path components (what the generator produces). *)
Definition ujoin (prefix n : bytes) : bytes :=
  match prefix with [] => n | _ => prefix ++ [x2f] ++ n end.
Fixpoint ulist_tree (prefix : bytes) (t : utree) : list bytes * bool :=
  match t with
  | UDir es =>
    (fix go (l : list (name * utree)) : list bytes * bool :=
       match l with
       | [] => ([], true)
       | (n, c) :: r =>
         let p := ujoin prefix n in
         let '(sub, ok) := ulist_tree p c in
         if ok then let '(rest, ok2) := go r in (p :: sub ++ rest, ok2) else (p :: sub, false)
       end) es
  | UMissing => ([], false)
  | UBad => ([], false)
  | _ => ([], true)
  end.
Fixpoint ulist_roots (rs : list uroot) : list bytes * bool :=
  match rs with
  | [] => ([], true)
  | RRaw :: r => ulist_roots r
  | RNode t :: r =>
    let '(ls, ok) := ulist_tree [] t in
    if ok then let '(rest, ok2) := ulist_roots r in (ls ++ rest, ok2) else (ls, false)
  end.

(* ---- car debug | car compile (CARv1) ---------------------------------------------------------------------------- *)
(* compile collects the patch's blocks in a Go map keyed by CID and writes them in map order: the
   output is the header of the roots followed by every distinct CID once, in an order the program does
   not determine.  [order] stands for that order (any permutation of the first occurrences).  That
   re-encoding a block through dag-json reproduces its bytes is the codec libraries' business (true of
   canonical dag-cbor / dag-pb / raw blocks) and observed, not modelled. *)
Definition compile_out (roots : list bytes) (order : list block) : bytes :=
  ld (enc_header (Some roots) 1) ++ enc_sections order.

(* a canonical order for the executable model: ascending CID bytes *)
Fixpoint ins_block (b : block) (l : list block) : list block :=
  match l with
  | [] => [b]
  | x :: t => if bytes_ltb (fst b) (fst x) then b :: l else x :: ins_block b t
  end.
Definition sort_blocks (bs : list block) : list block := fold_left (fun acc b => ins_block b acc) bs [].

(* ---- the CID list of car filter (cmd/car/filter.go parseCIDS) ------------------------------------------ *)
(* bufio.ReadLine splits at '\n' (a final line needs no terminator), strings.TrimSpace removes the
   surrounding white space (so also the '\r' of a CRLF ending), empty lines are skipped, everything else
   must be a CID in text form.  cid.Parse (multibase text, optional /ipfs/ prefix) is an oracle: a table
   from accepted texts to CID bytes.  Lines longer than bufio's 4096-byte buffer are returned in pieces
   by ReadLine; that is not modelled (no CID text is that long). *)
Definition is_ws (b : byte) : bool :=
  let n := b2n b in (n =? 9) || (n =? 10) || (n =? 11) || (n =? 12) || (n =? 13) || (n =? 32).
Fixpoint trim_left (s : bytes) : bytes :=
  match s with
  | b :: t => if is_ws b then trim_left t else s
  | [] => []
  end.
Definition trim_ws (s : bytes) : bytes := rev (trim_left (rev (trim_left s))).

(* cur = the current line, reversed *)
Fixpoint split_lines (s : bytes) (cur : bytes) : list bytes :=
  match s with
  | [] => [rev cur]
  | b :: t => if b2n b =? 10 then rev cur :: split_lines t [] else split_lines t (b :: cur)
  end.

Fixpoint cid_text_lookup (tab : list (bytes * bytes)) (t : bytes) : option bytes :=
  match tab with
  | [] => None
  | (k, c) :: rest => if bytes_eqb k t then Some c else cid_text_lookup rest t
  end.

Fixpoint parse_cid_lines (tab : list (bytes * bytes)) (lines : list bytes) : option (list bytes) :=
  match lines with
  | [] => Some []
  | l :: rest =>
    match trim_ws l with
    | [] => parse_cid_lines tab rest
    | t => match cid_text_lookup tab t with
           | None => None                                    (* cid.Parse fails: the command stops *)
           | Some c => match parse_cid_lines tab rest with
                       | Some cs => Some (c :: cs)
                       | None => None
                       end
           end
    end
  end.

Definition parse_cids (tab : list (bytes * bytes)) (text : bytes) : option (list bytes) :=
  parse_cid_lines tab (split_lines text []).

(* car filter with its CID list as text (from --cid-file or stdin: the same parser); a list that
   does not parse stops the command before the output is touched *)
Definition filter_cmd (hok : bytes -> bytes -> option bool) (hdrdec : bytes -> option (list bytes * N))
           (tab : list (bytes * bytes)) (text : bytes) (inv : bool) (ver : N) (app : bool)
           (infile : bytes) (outf : option bytes) : bool * option bytes :=
  match parse_cids tab text with
  | None => (false, outf)
  | Some sel => filter_car hok hdrdec sel inv ver app infile outf
  end.

(* ---- layer B: what the property says the outputs are ------------------------------------------------- *)
(* first occurrence of every multihash, identity blocks dropped: what a default ReadWrite blockstore keeps *)
Definition mh_of (c : bytes) : option (N * bytes) :=
  match cid_parse c with Some p => Some (c_mhcode p, c_digest p) | None => None end.
Definition same_mh (a b : bytes) : bool :=
  match mh_of a, mh_of b with
  | Some (ca, da), Some (cb, db) => (ca =? cb) && bytes_eqb da db
  | _, _ => false
  end.
Definition is_identity_cid (c : bytes) : bool :=
  match cid_parse c with Some p => is_identity p | None => false end.

Fixpoint dedup_from (seen : list bytes) (bs : list block) : list block :=
  match bs with
  | [] => []
  | b :: t =>
    if is_identity_cid (fst b) || existsb (same_mh (fst b)) seen then dedup_from seen t
    else b :: dedup_from (fst b :: seen) t
  end.
Definition dedup_blocks (bs : list block) : list block := dedup_from [] bs.

Definition filter_spec (sel : list bytes) (inv : bool) (bs : list block) : list block :=
  dedup_blocks (filter (fun b => match_filter sel inv (fst b)) bs).

(* a CARv1 payload with header bytes hb (covers the nil-roots and the empty-roots header) *)
Definition payload_hb (hb : bytes) (bs : list block) : bytes := ld hb ++ enc_sections bs.

(* the index records a regenerated (LoadIndex) index has: every non-identity section *)
Definition all_records_hb (hb : bytes) (bs : list block) : list irec := records_from (blen (ld hb)) bs.
Definition regen_records_hb (hb : bytes) (bs : list block) : list irec :=
  filter (fun r => negb (r_code r =? 0)) (all_records_hb hb bs).

(* the CARv2 file car index writes around a payload *)
Definition indexed_file (codec : N) (hb : bytes) (bs : list block) : option bytes :=
  match idx_new codec with
  | None => None
  | Some i0 =>
    let p := payload_hb hb bs in
    Some (pragma ++ enc_v2hdr (new_header (blen p)) ++ p ++ idx_write (idx_load (regen_records_hb hb bs) i0))
  end.
Definition indexless_file (hb : bytes) (bs : list block) : bytes :=
  let p := payload_hb hb bs in
  pragma ++ enc_v2hdr (mkv2 0 0 51 (blen p) 0) ++ p.
Definition detached_index (codec : N) (hb : bytes) (bs : list block) : option bytes :=
  match idx_new codec with
  | None => None
  | Some i0 => Some (idx_write (idx_load (regen_records_hb hb bs) i0))
  end.

(* executable guard of the partial verify-closure theorems: the index bytes parse and answer for
   every non-identity CID (that this always holds of a generated index is C03 / C11) *)
Definition index_answers (ibytes : bytes) (cids : list bytes) : bool :=
  match idx_read ibytes with
  | Ok (i, _) => forallb (idx_knows i) cids
  | Err _ => false
  end.

Definition roots_present (roots : list bytes) (bs : list block) : bool :=
  forallb (cid_in (map fst bs)) roots.

(* the block whose section starts at offset o of a payload laid out from pos *)
Fixpoint block_at (pos : N) (bs : list block) (o : N) : option block :=
  match bs with
  | [] => None
  | b :: t => if o =? pos then Some b else block_at (pos + section_size (fst b) (snd b)) t o
  end.

(* executable guards of the partial get-block theorems: every candidate offset the index yields for
   the key is the start of a section (soundness of the index, C03), and -- when the key is present --
   one of them carries the key's multihash (completeness) *)
Definition cand_block (hb : bytes) (bs : list block) (o : N) : option block := block_at (blen (ld hb)) bs o.
Definition cand_matches (hb : bytes) (bs : list block) (key : bytes) (o : N) : bool :=
  match cand_block hb bs o with Some b => same_mh (fst b) key | None => false end.
Definition candidates_sound (hb : bytes) (bs : list block) (cands : list N) : bool :=
  forallb (fun o => match cand_block hb bs o with Some _ => true | None => false end) cands.
Definition candidates_ok (hb : bytes) (bs : list block) (cands : list N) (key : bytes) : bool :=
  candidates_sound hb bs cands && existsb (cand_matches hb bs key) cands.
