(* go-varint (multiformats) and encoding/binary varints over byte strings. *)
From GoCar Require Import Bytes.

(* binary.PutUvarint; fuel 10 is enough for every uint64 *)
Fixpoint put_uv_f (fuel : nat) (n : N) : bytes :=
  match fuel with
  | O => []
  | S f => if n <? 128 then [n2b n] else n2b (128 + n mod 128) :: put_uv_f f (n / 128)
  end.
Definition put_uv (n : N) : bytes := put_uv_f 10 n.

(* varint.UvarintSize *)
Fixpoint uv_size_f (fuel : nat) (n : N) : N :=
  match fuel with
  | O => 0
  | S f => if n <? 128 then 1 else 1 + uv_size_f f (n / 128)
  end.
Definition uv_size (n : N) : N := uv_size_f 10 n.

Inductive vres :=
| VOk (v : N) (rest : bytes) (used : N)
| VEof            (* no byte at all *)
| VUnexpectedEof  (* ran out inside a value (ReadUvarint) / ErrUnderflow (FromUvarint) *)
| VOverflow
| VNotMinimal.

(* go-varint ReadUvarint / FromUvarint: i = index of the byte being read *)
Fixpoint read_uv_f (fuel : nat) (i : N) (x : N) (bs : bytes) : vres :=
  match fuel with
  | O => VOverflow
  | S f =>
    match bs with
    | [] => if i =? 0 then VEof else VUnexpectedEof
    | b :: rest =>
      let v := b2n b in
      if ((i =? 8) && (128 <=? v)) || (9 <=? i) then VOverflow
      else if v <? 128 then
        if (v =? 0) && (0 <? i) then VNotMinimal
        else VOk (x + v * 2 ^ (7 * i)) rest (i + 1)
      else read_uv_f f (i + 1) (x + (v - 128) * 2 ^ (7 * i)) rest
    end
  end.
Definition read_uv (bs : bytes) : vres := read_uv_f 10 0 0 bs.

(* encoding/binary.ReadUvarint (root module): up to 10 bytes, non-minimal accepted,
   10th byte must be <= 1; value wraps into uint64 by construction *)
Fixpoint read_uv_std_f (fuel : nat) (i : N) (x : N) (bs : bytes) : vres :=
  match fuel with
  | O => VOverflow
  | S f =>
    match bs with
    | [] => if i =? 0 then VEof else VUnexpectedEof
    | b :: rest =>
      let v := b2n b in
      if v <? 128 then
        if (i =? 9) && (1 <? v) then VOverflow
        else VOk (x + v * 2 ^ (7 * i)) rest (i + 1)
      else if i =? 9 then VOverflow
      else read_uv_std_f f (i + 1) (x + (v - 128) * 2 ^ (7 * i)) rest
    end
  end.
Definition read_uv_std (bs : bytes) : vres := read_uv_std_f 11 0 0 bs.
