(* run / prop entries of the kinds "storemap" (C04) and "deferred" (C20, second half of the file).
   The wire format is that of kind "store" (RunStore.v) without reopen and without faults:
     input  = (kind opts roots faults ops hdrtab)
     output = (openresult ((out changed) ...) finalfile)
   run_storemap evaluates [trace (impl_step ..)] -- the function the C04 theorems are about;
   prop_storemap evaluates the reference map [spec_step] against what the IMPLEMENTATION returned. *)
From Coq Require Import Strings.String.
From GoCar Require Import Bytes Varint Cid Header Frame V2Header Index Scan Store Crash Val RunStore StoreSpec Deferred.

(* kinds: 0 blockstore.OpenReadWrite(path) | 5 blockstore.OpenReadWriteFile(caller's file) | 1,2,3 storage *)
Definition v_front (kn : N) : front := if kn =? 0 then FBs else if kn =? 5 then FBf else FSt (kn =? 1).
Definition v_mkind (kn : N) : skind := if kn =? 5 then KBlockstore else v_kind kn.

Definition v_sop (op : val) : option sop :=
  let c := vB (vnth 1 op) in
  if tag_is op "put" then Some (OpPut c (vB (vnth 2 op)))
  else if tag_is op "putmany" then Some (OpPutMany (vblocks (VL (tl (vL op)))))
  else if tag_is op "has" then Some (OpHas c)
  else if tag_is op "get" then Some (OpGet c)
  else if tag_is op "getsize" then Some (OpGetSize c)
  else if tag_is op "keys" then Some OpKeys
  else if tag_is op "roots" then Some OpRoots
  else if tag_is op "finalize" then Some OpFinalize
  else if tag_is op "finalizero" then Some OpFinalizeRO
  else if tag_is op "close" then Some OpClose
  else if tag_is op "discard" then Some OpDiscard
  else None.
Fixpoint v_sops (l : list val) : list sop :=
  match l with
  | [] => []
  | v :: t => match v_sop v with Some op => op :: v_sops t | None => v_sops t end
  end.

Definition op_name (op : sop) : string :=
  match op with
  | OpPut _ _ => "put" | OpPutMany _ => "putmany" | OpHas _ => "has" | OpGet _ => "get"
  | OpGetSize _ => "getsize" | OpKeys => "keys" | OpRoots => "roots" | OpFinalize => "finalize"
  | OpFinalizeRO => "finalizero" | OpClose => "close" | OpDiscard => "discard"
  end.

(* (out changed) per step: changed = the file bytes differ from before the step *)
Fixpoint step_obs (prev : bytes) (tr : list (wstate * out)) : list val :=
  match tr with
  | [] => []
  | (s, o) :: t =>
      VL [v_out o; v_of_bool (negb (bytes_eqb prev (ws_file s)))] :: step_obs (ws_file s) t
  end.

(* histories with reopen: (treopen ..) closes the handle and opens the file again with the same roots and
   options (Crash.reopen = store.ResumableVersion + store.Resume); a failed reopen ends the history *)
(* ReadWrite.DeleteBlock (always an error) and ReadWrite.HashOnRead (a no-op) are stutter steps: they are
   not operations of the map, the state and the file are untouched *)
Inductive xop := XOp (op : sop) | XReopen | XDelete (c : bytes) | XHashOnRead (enable : bool).
Fixpoint v_xops (l : list val) : list xop :=
  match l with
  | [] => []
  | v :: t => if tag_is v "reopen" then XReopen :: v_xops t
              else if tag_is v "delete" then XDelete (vB (vnth 1 v)) :: v_xops t
              else if tag_is v "hashonread" then XHashOnRead (vbool (vnth 1 v)) :: v_xops t
              else match v_sop v with Some op => XOp op :: v_xops t | None => v_xops t end
  end.
Definition stutter_res (x : xop) : out := match x with XDelete _ => OErr EOther | _ => ONil end.
(* the map history inside a history with stutter steps, and the results put back in place *)
Fixpoint x_sops (ops : list xop) : list sop :=
  match ops with
  | [] => []
  | XOp op :: t => op :: x_sops t
  | _ :: t => x_sops t
  end.
Fixpoint weave (ops : list xop) (rs : list out) : list out :=
  match ops with
  | [] => []
  | XOp _ :: t => match rs with r :: rs' => r :: weave t rs' | [] => [] end
  | x :: t => stutter_res x :: weave t rs
  end.
Definition no_reopen (x : xop) : bool := match x with XReopen => false | _ => true end.

Section XTrace.
  Variable hdrdec : bytes -> option (list bytes * N).
  Variables (f : front) (o : wopts) (nilroots : bool) (roots : list bytes).
  (* (file after the step, result) per step *)
  Fixpoint xtrace (s : wstate) (ops : list xop) : list (bytes * out) :=
    match ops with
    | [] => []
    | XOp op :: t => let '(s', r) := impl_step hdrdec f s op in (ws_file s', r) :: xtrace s' t
    | XReopen :: t =>
        match reopen hdrdec (ws_kind s) o nilroots roots (ws_file s) with
        | inl s' => (ws_file s', ONil) :: xtrace s' t
        | inr (e, dv) => [(d_file dv, OErr e)]
        end
    | x :: t => (ws_file s, stutter_res x) :: xtrace s t
    end.
End XTrace.

Fixpoint xstep_obs (prev : bytes) (tr : list (bytes * out)) : list val :=
  match tr with
  | [] => []
  | (file, o) :: t =>
      (* third field: does storage.IsNotFound classify the error as "not found" *)
      VL [v_out o; v_of_bool (negb (bytes_eqb prev file)); v_of_bool (match o with OErr ENotFound => true | _ => false end)]
      :: xstep_obs file t
  end.

Definition run_storemap (input : val) : val :=
  let kn := vN (vnth 0 input) in
  let o := v_wopts (vnth 1 input) in
  let roots := vcids (vnth 2 input) in
  let nilroots := is_nil_tag (vnth 2 input) in
  let hdrdec := hdr_lookup (vL (vnth 5 input)) in
  match open_new (v_mkind kn) o nilroots roots [] with
  | Err e => VL [VL [VT "err"; v_err e]; VL []; VB []]
  | Ok s =>
    let tr := xtrace hdrdec (v_front kn) o nilroots roots s (v_xops (vL (vnth 4 input))) in
    VL [VL [VT "nil"]; VL (xstep_obs (ws_file s) tr); VB (last (map fst tr) (ws_file s))]
  end.

(* ---- the layer-B predicate ------------------------------------------------------------------------ *)
Fixpoint val_eqb (a b : val) : bool :=
  match a, b with
  | VN x, VN y => x =? y
  | VB x, VB y => bytes_eqb x y
  | VT x, VT y => String.eqb x y
  | VL x, VL y =>
      (fix go (x y : list val) : bool :=
         match x, y with
         | [], [] => true
         | a' :: x', b' :: y' => val_eqb a' b' && go x' y'
         | _, _ => false
         end) x y
  | _, _ => false
  end.

(* key listings are compared as multisets: sort the byte strings *)
Fixpoint ins_bytes (x : bytes) (l : list bytes) : list bytes :=
  match l with
  | [] => [x]
  | y :: t => if bytes_leb x y then x :: l else y :: ins_bytes x t
  end.
Definition sort_bytes (l : list bytes) : list bytes := fold_right ins_bytes [] l.
Definition canon_keys (v : val) : val :=
  if tag_is v "keys" then VL [VT "keys"; v_cids (sort_bytes (vcids (vnth 1 v)))] else v.

Definition is_lifecycle (op : sop) : bool :=
  match op with OpFinalize | OpFinalizeRO | OpClose | OpDiscard => true | _ => false end.

Definition fail (clause cls : string) : val := VL [VT "FAIL"; VT clause; VT cls].

(* walk the history with the reference map; compare each result the implementation returned.
   - a listing (keys) is compared as a multiset;
   - the result of a lifecycle call on a store that is already closed/finalized is not compared
     (the property does not say what a second Finalize/Close answers), only its effect is;
   - once the map is frozen (closed or finalized) the file must not change. *)
Fixpoint check_steps (f : front) (o : wopts) (roots : list bytes) (hlen : N) (cls : string)
         (m : mstate) (ops : list xop) (obs : list val) : val :=
  match ops, obs with
  | XReopen :: ops', ob :: obs' =>
    (* reopening the file a session left behind succeeds and the store holds the same blocks, open again
       (C04_refines_map_resumed); Resume may rewrite the CARv2 header, so the file may change here *)
    if val_eqb (vnth 0 ob) (VL [VT "nil"]) then check_steps f o roots hlen cls (mkm (m_blocks m) false false) ops' obs'
    else if w_maxh o <? hlen then VT "ok"     (* Resume cannot read a header over MaxAllowedHeaderSize *)
    else fail "reopen-refused" cls
  | XDelete _ :: ops', ob :: obs' | XHashOnRead _ :: ops', ob :: obs' =>
    (* stutter steps: the fixed answer, and the file as it was *)
    if vbool (vnth 1 ob) then fail "stutter-step-changed-file" cls
    else if negb (val_eqb (vnth 0 ob) (v_out (stutter_res (match ops with x :: _ => x | [] => XReopen end))))
    then fail "stutter-step-result" cls
    else check_steps f o roots hlen cls m ops' obs'
  | XOp op :: ops', ob :: obs' =>
    let '(m', expect) := spec_step_lim f o roots hlen m op in
    let got := vnth 0 ob in
    let changed := vbool (vnth 1 ob) in
    if m_frozen m && changed then fail "file-changed-after-finalize" cls
    else if is_lifecycle op && m_frozen m then check_steps f o roots hlen cls m' ops' obs'
    else
      let same := match op with
                  | OpKeys => val_eqb (canon_keys (v_out expect)) (canon_keys got)
                  | _ => val_eqb (v_out expect) got
                  end in
      (* storage.IsNotFound must say "not found" exactly for the lookups of keys the map does not hold *)
      let want_nf := match expect with OErr ENotFound => true | _ => false end in
      if same && negb (Bool.eqb want_nf (vbool (vnth 2 ob))) then fail "notfound-classification" cls
      else if same then check_steps f o roots hlen cls m' ops' obs'
      else fail (String.append (op_name op) "-differs-from-map") cls
  | _, _ => VT "ok"
  end.

Definition prop_storemap (input obs : val) : val :=
  let kn := vN (vnth 0 input) in
  let o := v_wopts (vnth 1 input) in
  let roots := vcids (vnth 2 input) in
  if negb (tag_is (vnth 0 obs) "nil") then VT "ok"      (* the store could not be opened: n/a *)
  else
    let cls := String.append (if kn =? 0 then "blockstore" else if kn =? 5 then "blockstore-callers-file" else "storage") (if w_v1 o then "-v1" else "-v2") in
    check_steps (v_front kn) o roots (blen (enc_header (roots_opt (is_nil_tag (vnth 2 input)) roots) 1)) cls m_empty (v_xops (vL (vnth 4 input))) (vL (vnth 1 obs)).

(* ==== kind "deferred" (C20) ===============================================================================
   input  = (target v1given opts roots ops pre) target: 0 path | 1 stream; roots: (cid ...) or tnil;
            pre: tnone | b<bytes> = the file at the output path before the writer is used (path target)
            faults (optional 7th field): the fault script of the output target, as in kind "store"
            kids (optional 8th field): ((id ((id once) ...)) ...) = the callbacks the callback id registers when it fires
            ops: (tonput id once) (thas key) (tput key data) (tclose)
                 (topen h) (twrite h data) (tcommit h key) -- the BlockWriteOpener path on writer h
   output = ((res log bytes exists directbytes) ...)  per step:
            res = result of the call; log = ((id len) ...) callback invocations made by the call;
            bytes / exists = the output stream (or file) bytes and whether the file exists after the step;
            directbytes = the output of a DIRECT storage.NewWritable writer with the same target kind,
            roots and options that is created at the first Put and fed the same Puts (Finalize at Close). *)
Definition v_dcfg (input : val) : dcfg :=
  mkdcfg (if vN (vnth 0 input) =? 0 then TPath else TStream) (v_wopts (vnth 2 input)) (vbool (vnth 1 input))
         (is_nil_tag (vnth 3 input)) (vcids (vnth 3 input))
         (match vnth 5 input with VB b => Some b | _ => None end)
         (v_faults (vnth 6 input))
         (map (fun e => (vN (vnth 0 e), map (fun x => (vN (vnth 0 x), vbool (vnth 1 x))) (vL (vnth 1 e)))) (vL (vnth 7 input))).

Definition v_dop (op : val) : option dop :=
  if tag_is op "onput" then Some (DOnPut (vN (vnth 1 op)) (vbool (vnth 2 op)))
  else if tag_is op "has" then Some (DHas (vB (vnth 1 op)))
  else if tag_is op "put" then Some (DPut (vB (vnth 1 op)) (vB (vnth 2 op)))
  else if tag_is op "close" then Some DClose
  else None.
Definition v_dxop (op : val) : option dxop :=
  if tag_is op "open" then Some (XOpen (vN (vnth 1 op)))
  else if tag_is op "write" then Some (XWrite (vN (vnth 1 op)) (vB (vnth 2 op)))
  else if tag_is op "commit" then Some (XCommit (vN (vnth 1 op)) (vB (vnth 2 op)))
  else match v_dop op with Some o => Some (XD o) | None => None end.
Fixpoint v_dops (l : list val) : list dxop :=
  match l with
  | [] => []
  | v :: t => match v_dxop v with Some op => op :: v_dops t | None => v_dops t end
  end.

Definition v_log (l : list (N * N)) : val := VL (map (fun e => VL [VN (fst e); VN (snd e)]) l).

(* the direct writer next to the deferred one: created by the first Put that is not refused as closed *)
Definition direct_step (c : dcfg) (closed : bool) (dir : option wstate) (op : dop) : option wstate :=
  if closed then dir else
  match op with
  | DPut k d =>
      match dir with
      | Some s => Some (fst (st_put s k d))
      | None => match direct_open c with Ok s => Some (fst (st_put s k d)) | Err _ => None end
      end
  | DClose => match dir with Some s => Some (fst (st_finalize s)) | None => None end
  | _ => dir
  end.

Fixpoint run_dsteps (c : dcfg) (xs : dxstate) (dir : option wstate) (ops : list dxop) : list val :=
  match ops with
  | [] => []
  | op :: t =>
    let '(xs', o) := dx_step c xs op in
    (* the direct writer gets the Put an opener step amounts to (a first commit), and plain ops *)
    let dir' := match fst (dx_eff (dx_bufs xs) op) with
                | Some dop => direct_step c (d_closed (dx_st xs)) dir dop
                | None => dir
                end in
    VL [v_out (do_res o); v_log (do_log o); VB (d_bytes c (dx_st xs')); v_of_bool (d_exists c (dx_st xs'));
        VB (match dir' with Some s => ws_file s | None => [] end)]
    :: run_dsteps c xs' dir' t
  end.

Definition run_deferred (input : val) : val :=
  VL (run_dsteps (v_dcfg input) dx_init None (v_dops (vL (vnth 4 input)))).

(* the property, on what the implementation did:
   lazy      -- until a Put has been issued on a writer that was not closed: no byte on the stream; the
                output path is as it was (no file, or the pre-existing file with its bytes);
   callbacks -- a Put invokes exactly the live callbacks, in registration order, with len(content);
   closed    -- after Close: Has/Put/Close answer "closed", and the output no longer changes;
   identical -- from the first such Put on, the output equals the output of the direct writer (which
                writes to a fresh target) after every step, whatever was at the path before. *)
Fixpoint check_dsteps (c : dcfg) (cls : string) (acc : list (N * bool) * bool) (started : bool) (prev : bytes)
         (bufs : dbufs) (xops : list dxop) (obs : list val) : val :=
  match xops, obs with
  | xop :: ops', ob :: obs' =>
    match dx_eff bufs xop with
    | (None, bufs') =>
      (* opening / writing / a used committer: the deferred writer is not involved *)
      if negb (val_eqb (v_out (dx_idle_res bufs xop)) (vnth 0 ob)) then fail "opener-step-result" cls
      else if negb (val_eqb (VL []) (vnth 1 ob)) then fail "callback-log-differs" cls
      else if negb (bytes_eqb (vB (vnth 2 ob)) prev) then fail "uncommitted-opener-wrote" cls
      else check_dsteps c cls acc started prev bufs' ops' obs'
    | (Some op, bufs') =>
    let closed := snd acc in
    let res := vnth 0 ob in
    let bytes := vB (vnth 2 ob) in
    let started' := started || (is_put op && negb closed) in
    let bad_log :=
      match op with
      | DPut _ d =>
          let want := if closed then [] else map (fun cb => (fst cb, blen d)) (fired_re (dc_kids c) (fst acc)) in
          negb (val_eqb (v_log want) (vnth 1 ob))
      | _ => negb (val_eqb (VL []) (vnth 1 ob))
      end in
    if negb started' && (negb (bytes_eqb bytes (pre_bytes c)) || negb (Bool.eqb (vbool (vnth 3 ob)) (pre_exists c)))
    then fail "written-before-first-put" cls
    else if bad_log then fail "callback-log-differs" cls
    else if closed && (match op with DOnPut _ _ => false | _ => true end)
            && negb (val_eqb res (VL [VT "err"; VT "closed"])) then fail "not-closed-after-close" cls
    else if closed && negb (bytes_eqb bytes prev) then fail "output-changed-after-close" cls
    else if started' && negb (bytes_eqb bytes (vB (vnth 4 ob))) then fail "differs-from-direct-writer" cls
    else check_dsteps c cls (live_step_re (dc_kids c) acc op) started' bytes bufs' ops' obs'
    end
  | _, _ => VT "ok"
  end.

Definition prop_deferred (input obs : val) : val :=
  let c := v_dcfg input in
  let cls := String.append (match dc_target c with TPath => "path" | TStream => "stream" end)
                           (if w_v1 (eff_opts c) then "-v1" else "-v2") in
  check_dsteps c cls ([], false) false (pre_bytes c) [] (v_dops (vL (vnth 4 input))) (vL obs).
