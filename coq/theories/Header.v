(* CARv1 header: dag-cbor {roots:[cid...], version:n} as go-ipld-cbor/refmt writes it,
   and the canonical-shape decoder. *)
From GoCar Require Import Bytes Varint Cid.

Fixpoint be_enc (width : nat) (n : N) : bytes :=
  match width with
  | O => []
  | S w => n2b ((n / 256 ^ N.of_nat w) mod 256) :: be_enc w n
  end.
Fixpoint be_dec_acc (acc : N) (bs : bytes) : N :=
  match bs with [] => acc | b :: t => be_dec_acc (acc * 256 + b2n b) t end.

(* CBOR head: major type (0..7) and argument *)
Definition cbor_head (major n : N) : bytes :=
  if n <? 24 then [n2b (major * 32 + n)]
  else if n <? 256 then n2b (major * 32 + 24) :: be_enc 1 n
  else if n <? 65536 then n2b (major * 32 + 25) :: be_enc 2 n
  else if n <? 4294967296 then n2b (major * 32 + 26) :: be_enc 4 n
  else n2b (major * 32 + 27) :: be_enc 8 n.

Definition key_roots : bytes := [x65; x72; x6f; x6f; x74; x73].           (* text(5) "roots" *)
Definition key_version : bytes := [x67; x76; x65; x72; x73; x69; x6f; x6e]. (* text(7) "version" *)

Definition enc_cid_link (c : bytes) : bytes :=
  [xd8; x2a] ++ cbor_head 2 (1 + blen c) ++ [x00] ++ c.

(* roots = None models a nil slice (encoded as CBOR null) *)
Definition enc_roots (roots : option (list bytes)) : bytes :=
  match roots with
  | None => [xf6]
  | Some rs => cbor_head 4 (N.of_nat (length rs)) ++ concat (map enc_cid_link rs)
  end.

Definition enc_header (roots : option (list bytes)) (version : N) : bytes :=
  [xa2] ++ key_roots ++ enc_roots roots ++ key_version ++ cbor_head 0 version.

Definition pragma_body : bytes := [xa1] ++ key_version ++ [x02].
Definition pragma : bytes := [x0a] ++ pragma_body.

(* --- canonical-shape decoder ------------------------------------------------------- *)
(* read a CBOR head: Some (major, arg, rest) for definite-length heads *)
Definition dec_head (bs : bytes) : option (N * N * bytes) :=
  match bs with
  | [] => None
  | b :: t =>
    let v := b2n b in
    let major := v / 32 in
    let info := v mod 32 in
    if info <? 24 then Some (major, info, t)
    else if info =? 24 then if blen t <? 1 then None else Some (major, be_dec_acc 0 (take 1 t), drop 1 t)
    else if info =? 25 then if blen t <? 2 then None else Some (major, be_dec_acc 0 (take 2 t), drop 2 t)
    else if info =? 26 then if blen t <? 4 then None else Some (major, be_dec_acc 0 (take 4 t), drop 4 t)
    else if info =? 27 then if blen t <? 8 then None else Some (major, be_dec_acc 0 (take 8 t), drop 8 t)
    else None
  end.

Definition strip_prefix (p bs : bytes) : option bytes :=
  if bytes_eqb (take (blen p) bs) p then Some (drop (blen p) bs) else None.

Definition dec_cid_link (bs : bytes) : option (bytes * bytes) :=
  match strip_prefix [xd8; x2a] bs with
  | Some r1 =>
    match dec_head r1 with
    | Some (major, n, r2) =>
      if negb (major =? 2) then None
      else if blen r2 <? n then None
      else match take n r2 with
           | z :: c => if b2n z =? 0
                       then match cid_parse c with
                            | Some _ => Some (c, drop n r2)
                            | None => None
                            end
                       else None
           | [] => None
           end
    | None => None
    end
  | None => None
  end.

Fixpoint dec_cid_links (k : nat) (bs : bytes) : option (list bytes * bytes) :=
  match k with
  | O => Some ([], bs)
  | S k' =>
    match dec_cid_link bs with
    | Some (c, rest) =>
      match dec_cid_links k' rest with
      | Some (cs, rest') => Some (c :: cs, rest')
      | None => None
      end
    | None => None
    end
  end.

Definition dec_roots (bs : bytes) : option (list bytes * bytes) :=
  match bs with
  | b :: t => if b2n b =? 246 then Some ([], t) else
    match dec_head bs with
    | Some (major, n, r) =>
      if negb (major =? 4) then None
      else if blen r <? n then None  (* each link takes at least one byte *)
      else dec_cid_links (N.to_nat n) r
    | None => None
    end
  | [] => None
  end.

Definition dec_version (bs : bytes) : option N :=
  match strip_prefix key_version bs with
  | Some r =>
    match dec_head r with
    | Some (major, n, rest) =>
      if (major =? 0) && (blen rest =? 0) then Some n else None
    | None => None
    end
  | None => None
  end.

(* header = (roots, version); nil and empty roots are both [] *)
Definition dec_header_canon (hb : bytes) : option (list bytes * N) :=
  match hb with
  | b :: t =>
    if b2n b =? 162 then
      match strip_prefix key_roots t with
      | Some r1 =>
        match dec_roots r1 with
        | Some (roots, r2) =>
          match dec_version r2 with
          | Some v => Some (roots, v)
          | None => None
          end
        | None => None
        end
      | None => None
      end
    else if b2n b =? 161 then
      match dec_version t with
      | Some v => Some ([], v)
      | None => None
      end
    else None
  | [] => None
  end.
