(* C08 -- concurrent use of the writable stores is race-free and linearizable.
   This file contains only statements closed by [exact]; proofs live in proofs/Monitor*.v.

   [facts] (theories/GeneratedLockFacts.v) is regenerated from the current Go source of
   v2/blockstore/{readonly,readwrite}.go, v2/storage/storage.go and
   v2/storage/deferred/deferredcarwriter.go by harness/lockfacts on every check: per exported
   method one entry per acyclic control-flow path (loops as Iter segments), per `go func`
   literal one table entry per path of its body.  The theorems below are about those tables.

   Reading: [client_code I cd] -- cd is the lock/field-access trace of any finite sequence of calls
   of the exported methods of type I (OnPut excluded), every call along any of its paths, loops
   unrolled any number of times.  [steps tbl (init progs) c] -- c is reachable from the threads
   progs under any interleaving; goroutines started by the methods join as new threads. *)
From Coq Require Import List.
From Coq Require Strings.String.
Import ListNotations.
Import Coq.Strings.String.StringSyntax.
From GoCar Require Import Bytes Varint Cid Header Frame V2Header Index Store StoreSpec Deferred Monitor GeneratedLockFacts RunConc.
From GoCarProofs Require Import CidFacts StoreInv MonitorDRF MonitorLive MonitorInst MonitorExec MonitorFacts MonitorLin MonitorReduce MonitorStore.
Local Open Scope string_scope.

(* the generated tables are those of the four types, and every path of every operation of every
   type obeys the lock discipline (finite check by computation over the generated tables) *)
Theorem C08_facts_are_the_four_store_types :
  map i_name facts = ["ReadOnly"; "ReadWrite"; "StorageCar"; "DeferredCarWriter"].
Proof. exact facts_names. Qed.
Print Assumptions C08_facts_are_the_four_store_types.

Theorem C08_lock_discipline_holds :
  Forall (fun I => violations I = []) facts.
Proof. exact facts_discipline. Qed.
Print Assumptions C08_lock_discipline_holds.

(* every call of every operation consists of at most ONE outermost critical section (and the goroutines
   it starts open none), along every path: the discipline makes each critical section atomic
   (C08_critical_sections_are_isolated, C08_micro_steps_reduce_to_atomic_sections); a call is one
   atomic step of the sequential specification only if it does not split its work over two sections
   (check-then-act over a released lock is race-free and still not linearizable). *)
Theorem C08_every_operation_is_one_critical_section :
  Forall (fun I => atomicity_violations I = []) facts.
Proof. exact facts_one_section_per_call. Qed.
Print Assumptions C08_every_operation_is_one_critical_section.

(* no data race and no unlock of an unheld mutex, in any reachable configuration, for any number of
   goroutines and any interleaving *)
Theorem C08_no_data_race_no_lock_misuse :
  forall I, In I facts ->
  forall (progs : list (list act)) (c : cfg),
    Forall (client_code I) progs ->
    steps (i_table I) (init progs) c ->
    ~ race c /\ ~ bad_unlock c.
Proof. exact facts_race_free. Qed.
Print Assumptions C08_no_data_race_no_lock_misuse.

(* Panics.  [i_panic I] lists, per operation, its panic exits taken while a lock is held: what the call
   had done when a callee (index / store helper, writer, user callback) or an index expression panicked,
   followed by the deferred calls of every activation, innermost first.  For the three writable stores
   the discipline holds with these exits counted among the ways a call can run ([with_panics]): every
   lock is released by a deferred unlock, nothing guarded is touched after it -- so a goroutine that
   recovers from such a panic leaves no lock behind: still no race, no unlock of an unheld mutex, and no
   stuck configuration, whatever the other goroutines do. *)
Theorem C08_recovered_panics_release_every_lock :
  forall I, In I facts -> String.eqb (i_name I) "ReadOnly" = false ->
  forall (progs : list (list act)) (c : cfg),
    Forall (client_code (with_panics I)) progs ->
    steps (i_table I) (init progs) c ->
    ~ race c /\ ~ bad_unlock c /\
    ((exists t, In t (ts c) /\ code t <> []) -> exists i a c', step (i_table I) c i a c').
Proof. exact facts_panics_race_free. Qed.
Print Assumptions C08_recovered_panics_release_every_lock.

(* ReadOnly.AllKeysChan cannot use a deferred unlock (it hands its read lock to the goroutine it
   starts): a panic between RLock and the hand-off (in carv1.ReadHeader / HeaderSize / Seek) would leave
   the read lock held and block Close for ever.  These are the only panic exits of ReadOnly that leave a
   lock behind; C09 proves that the header parser does not panic; ReadOnly alone is not one of the
   property's objects (ReadWrite has its own AllKeysChan). *)
Theorem C08_readonly_allkeyschan_is_the_only_panic_exit_that_keeps_a_lock :
  panic_violations inst_ReadOnly <> [] /\
  forallb (fun v => String.eqb (fst v) "AllKeysChan") (panic_violations inst_ReadOnly) = true.
Proof. exact readonly_panic_leaks. Qed.
Print Assumptions C08_readonly_allkeyschan_is_the_only_panic_exit_that_keeps_a_lock.

(* section isolation: while a thread holds the mutex guarding field f exclusively, no other thread is
   at an access of f; while it holds it shared, no other thread is at a write of f *)
Theorem C08_critical_sections_are_isolated :
  forall I, In I facts ->
  forall (progs : list (list act)) (c : cfg) l t1 mid t2 r f w,
    Forall (client_code I) progs ->
    steps (i_table I) (init progs) c ->
    ts c = l ++ t1 :: mid ++ t2 :: r -> i_exempt I f = false ->
    (holdsW (th t1) (i_guard I f) = true -> ~ accesses t2 f w) /\
    (holdsW (th t2) (i_guard I f) = true -> ~ accesses t1 f w) /\
    (holdsAny (th t1) (i_guard I f) = true -> ~ accesses t2 f true) /\
    (holdsAny (th t2) (i_guard I f) = true -> ~ accesses t1 f true).
Proof. exact facts_isolation. Qed.
Print Assumptions C08_critical_sections_are_isolated.

(* the deadlock clause as far as the model carries it: no reachable configuration is stuck -- as long
   as some goroutine has not finished, some goroutine can take a step (mutexes are taken in one global
   order, DeferredCarWriter.lk before StorageCar.mu, and nobody ends a call holding a lock).  Channel
   operations and user callbacks are steps that are always enabled in the model; the ones that happen
   while a lock is held ([Blk s] is accepted by the discipline with a lock held only if site s is marked
   listed in i_blk) are among the reviewed ones named in the second theorem. *)
Theorem C08_no_stuck_configuration :
  forall I, In I facts ->
  forall (progs : list (list act)) (c : cfg),
    Forall (client_code I) progs ->
    steps (i_table I) (init progs) c ->
    (exists t, In t (ts c) /\ code t <> []) ->
    exists i a c', step (i_table I) c i a c'.
Proof. exact facts_no_deadlock. Qed.
Print Assumptions C08_no_stuck_configuration.

Theorem C08_blocking_while_holding_a_lock_only_at_reviewed_sites :
  forall I, In I facts ->
  forall s, In (s, true) (i_blk I) ->
    In s ["ReadOnly.AllKeysChan/go0: select";
          "ReadOnly.AllKeysChan/go0: call maybeReportError";
          "DeferredCarWriter.Put: call of a function stored in putCb"].
Proof. exact facts_listed_blocking. Qed.
Print Assumptions C08_blocking_while_holding_a_lock_only_at_reviewed_sites.

(* From micro-steps to atomic sections (programs with data; Monitor.v section Data): threads are
   resumptions -- what a call does next may depend on every value it has read.  Mutex 0 is the
   object's outer RW lock; a critical section = from its acquisition to its release.  Covered:
   inner mutexes taken inside an exclusive outer section and released before it (the pair
   DeferredCarWriter.lk -> StorageCar.mu), hand-off of a shared section to a new goroutine that
   finishes it (ReadOnly.AllKeysChan), goroutines started inside an exclusive section that do nothing
   before they lock or return (ReadWrite.AllKeysChan after the repair).
   If every thread obeys the lock discipline ([pok]: shared fields are read only under their lock,
   written only under it exclusively, fields read without a lock are never written, the nesting and
   hand-off rules above) then every configuration the micro-step machine reaches, with reads and
   writes of different threads interleaved arbitrarily, is matched by a configuration of the machine
   that has NO locks and runs each critical section -- inner locks, handed-off part and all -- in ONE
   step: threads that hold nothing are in the same state ([main]; the goroutines [pend] that an open
   exclusive section has already started exist only in the micro-step machine until the section ends),
   and whenever no writer is inside a section the stores are equal.  The atomic machine takes a
   section's step when the micro-step machine releases mutex 0, or, for a shared section that is handed
   off, at the hand-off: in both cases between the call's first and last action. *)
Theorem C08_micro_steps_reduce_to_atomic_sections :
  forall (V R : Type) (exempt : nat -> bool) (guard : nat -> nat)
         (s : store V) (ps : list (prog V R)) (c : dcfg V R),
    Forall (pok V R exempt guard true []) ps ->
    dsteps V R (dinit V R s ps) c ->
    exists a main pend, asteps V R exempt (ainit V R s ps) a /\
      dts V R c = main ++ map (fun p => {| dh := []; dp := p |}) pend /\
      Forall2 (fun t p => hget (dh V R t) 0 = None -> p = dp V R t) main (ats V R a) /\
      (wl (dlk V R c 0) = false -> pend = [] /\ forall f, dst V R c f = ast V R a f).
Proof. exact micro_steps_reduce_to_atomic_sections. Qed.
Print Assumptions C08_micro_steps_reduce_to_atomic_sections.

Theorem C08_terminated_runs_are_runs_of_atomic_sections :
  forall (V R : Type) (exempt : nat -> bool) (guard : nat -> nat)
         (s : store V) (ps : list (prog V R)) (c : dcfg V R) (rs : list R),
    Forall (pok V R exempt guard true []) ps ->
    dsteps V R (dinit V R s ps) c ->
    dts V R c = map (fun r => {| dh := []; dp := PRet V R r |}) rs ->
    exists a, asteps V R exempt (ainit V R s ps) a /\ ats V R a = map (PRet V R) rs /\
              forall f, dst V R c f = ast V R a f.
Proof. exact terminated_runs_are_atomic. Qed.
Print Assumptions C08_terminated_runs_are_runs_of_atomic_sections.

(* the generated tables have the shape that theorem needs beyond the discipline: every mutex other than
   the object's outer one is taken only inside an exclusive outer section and released before it; the one
   hand-off happens holding exactly the outer lock shared, into a goroutine that starts none; goroutines
   started inside a section are started under the exclusive lock and consist of blocking sites only;
   goroutines started outside any section (escaping closures of BlockWriteOpener) are inert *)
Theorem C08_tables_have_the_shape_of_the_reduction :
  Forall (fun I => reduction_shape_violations I = []) facts.
Proof. exact facts_reduction_shape. Qed.
Print Assumptions C08_tables_have_the_shape_of_the_reduction.

(* ... and for resumptions that start no goroutine, the discipline [pok] follows from [ok] and that shape
   check on their act traces (the things computed on the generated tables) *)
Theorem C08_trace_discipline_gives_program_discipline :
  forall (V R : Type) (exempt : nat -> bool) (guard : nat -> nat) (v0 : V)
         (listed : nat -> bool) (tbl : list (held * path)) (p : prog V R) (ho : bool) (h : held),
    nospawn V R p ->
    (forall t, ptrace V R p t ->
       ok guard exempt listed tbl h t = true /\ shape_code tbl h t = true) ->
    pok V R exempt guard ho h p.
Proof. exact pok_of_traces. Qed.
Print Assumptions C08_trace_discipline_gives_program_discipline.

(* Linearizability against the map specification of C04.  [impl_step hdrdec f] is StoreSpec's dispatcher
   onto the functions of Store.v that model blockstore.ReadWrite (f = FBs) and storage.StorageCar;
   [StoreSpec.spec_step] is the reference append-only content-addressed map; C04_refines_map proves that
   they return the same results on every sequential history.  Here: an execution in which every call's
   critical section is ONE application of impl_step (atomic-section semantics: invocation, the section,
   response; otherwise arbitrary interleaving of any number of calls) returns exactly the results the MAP
   returns when the calls are run one after the other in an order w that contains every call once and
   never puts a call after one that was invoked after it returned.  Hypotheses: those of C04_refines_map
   (no 64-bit wrap-around, header oracle inverts the encoder, well-formed CIDs and sections within the
   limits for what is put, no write faults). *)
Theorem C08_store_sections_linearizable_wrt_map_spec :
  forall (hdrdec : bytes -> option (list bytes * N)) (k : skind) (o : wopts) (nilroots : bool)
         (roots : list bytes) (s0 : wstate) (f : front) (ops : list sop) (tr : list ev),
    51 + w_dpad o + w_ipad o < two64 ->
    hdrdec (enc_header (roots_opt nilroots roots) 1) = Some (roots, 1) ->
    blen (enc_header (roots_opt nilroots roots) 1) <= w_maxh o ->
    blen (enc_header (roots_opt nilroots roots) 1) < two63 ->
    open_new k o nilroots roots [] = Ok s0 ->
    (Forall (fun op =>
       match op with
       | OpPut c d =>
           cid_parse (fst (c, d)) <> None ->
           (exists p, cid_ok p /\ fst (c, d) = cid_enc p /\ blen (c_digest p) <= max_digest_alloc) /\
           blen (fst (c, d)) + blen (snd (c, d)) <= w_maxs o /\ blen (fst (c, d)) + blen (snd (c, d)) < two63
       | OpPutMany l =>
           Forall (fun b =>
             cid_parse (fst b) <> None ->
             (exists p, cid_ok p /\ fst b = cid_enc p /\ blen (c_digest p) <= max_digest_alloc) /\
             blen (fst b) + blen (snd b) <= w_maxs o /\ blen (fst b) + blen (snd b) < two63) l
       | _ => True
       end) ops /\
     51 + w_dpad o + w_ipad o + ld_size (blen (enc_header (roots_opt nilroots roots) 1)) + ops_size ops < two64) ->
    wf_trace (List.length ops) tr ->
    exists w : list nat,
      perm_ok (List.length ops) w = true /\
      rt_ok (hist_of (List.length ops) tr) w = true /\
      gresults wstate sop out (impl_step hdrdec f) OpRoots s0 ops tr
      = combine w (gexec mstate sop out (StoreSpec.spec_step f o roots) m_empty
                         (ops_along sop OpRoots ops w)).
Proof. exact store_sections_linearizable_wrt_map. Qed.
Print Assumptions C08_store_sections_linearizable_wrt_map_spec.

(* the same for ANY sequential model of an object, in particular for C20's model of the deferred writer
   ([Deferred.d_step]; C20_identical / C20_put_result_is_direct relate it to the StorageCar model) *)
Theorem C08_sections_of_any_model_are_linearizable :
  forall (St Op Res : Type) (step : St -> Op -> St * Res) (dflt : Op) (s0 : St) (ops : list Op) (tr : list ev),
    wf_trace (List.length ops) tr ->
    exists w : list nat,
      perm_ok (List.length ops) w = true /\
      rt_ok (hist_of (List.length ops) tr) w = true /\
      gresults St Op Res step dflt s0 ops tr = combine w (gexec St Op Res step s0 (ops_along Op dflt ops w)).
Proof. exact (@atomic_sections_linearizable_gen). Qed.
Print Assumptions C08_sections_of_any_model_are_linearizable.

Theorem C08_deferred_sections_linearizable_wrt_C20_model :
  forall (c : Deferred.dcfg) (ops : list dop) (tr : list ev),
    wf_trace (List.length ops) tr ->
    exists w : list nat,
      perm_ok (List.length ops) w = true /\
      rt_ok (hist_of (List.length ops) tr) w = true /\
      gresults dstate dop dout (d_step c) DClose d_init ops tr
      = combine w (gexec dstate dop dout (d_step c) d_init (ops_along dop DClose ops w)).
Proof. exact deferred_sections_linearizable. Qed.
Print Assumptions C08_deferred_sections_linearizable_wrt_C20_model.

(* Linearizability of the id-level specification the dynamic runs are checked against (RunConc.spec_step:
   blocks are small ids; what the harness' workloads can observe), with the executable check [lin_check]
   that the extracted driver evaluates on every observed history.
   _partial -- the chain from the Go code to "linearizable with respect to the map", link by link:
     (1) today's source obeys the lock discipline and every operation is one critical section:
         C08_lock_discipline_holds, C08_every_operation_is_one_critical_section (translator + vm_compute);
     (2) discipline => sections are isolated (C08_critical_sections_are_isolated) and every micro-step
         execution of programs with data is an execution of atomically executed sections
         (C08_micro_steps_reduce_to_atomic_sections): PROVED for one outer RW mutex per object with inner
         mutexes inside exclusive sections (DeferredCarWriter.lk -> StorageCar.mu), hand-off of a shared
         section (ReadOnly.AllKeysChan), goroutines started inside an exclusive section that do nothing
         before they lock or return (ReadWrite.AllKeysChan).  NOT covered by the theorem: hand-off of an
         EXCLUSIVE section, a hand-off inside a handed-off section, goroutines started outside a section or
         inside a shared one, goroutines that read never-written fields before their first lock operation,
         inner mutexes under a SHARED outer section or taken without the outer one (none of these occurs
         in the four types; a StorageCar shared between a DeferredCarWriter and direct callers would be the
         last case); that the tables stay inside the covered shape is checked:
         C08_tables_have_the_shape_of_the_reduction.  The discipline [pok] of that theorem is on resumptions;
         it follows from [ok] + the shape check on their act traces
         (C08_trace_discipline_gives_program_discipline, for resumptions that start no goroutine); that the
         generated tables ARE the act traces of the Go methods is the translator's soundness, trusted;
     (3) the atomic step of each critical section is Store.v's function for that operation (impl_step), resp.
         Deferred.d_step: NOT proved -- this is "Store.v models the code", which C04 / C20 sample
         sequentially and the C08 histories sample concurrently (every observed history is replayed through
         the id-level specification by lin_check);
     (4) atomic sections of impl_step => linearizable with respect to the reference map:
         C08_store_sections_linearizable_wrt_map_spec (uses C04_refines_map);
         for the deferred writer with respect to C20's model: C08_deferred_sections_linearizable_wrt_C20_model;
     (5) RunConc.spec_step (ids) is not formally related to StoreSpec.spec_step (CIDs and bytes): it is the
         projection of the map to what the workloads observe, validated by the same differential runs. *)
Theorem C08_linearizable_partial :
  forall (store : N) (v1 : bool) (ops : list cop) (tr : list ev),
    wf_trace (List.length ops) tr ->
    forallb (supported store) ops = true ->
    lin_check store v1 ops (hist_of (List.length ops) tr) (results_of store v1 ops tr) (lin_order tr) = true.
Proof. exact atomic_sections_linearizable. Qed.
Print Assumptions C08_linearizable_partial.

(* what any history that passes the check guarantees, in the words of the property.  Blocks are ids;
   [mhkey i] identifies the multihash of block i (different ids can carry one multihash under different
   codecs / CID versions, and equal digest bytes under different hash codes are different multihashes:
   the key families of RunConc.v); the stores de-duplicate by multihash. *)
Theorem C08_put_returned_then_has_finds_it :
  forall (store : N) (v1 : bool) (ops : list cop) (hist : list (N * N)) (results : list cres) (w : list nat),
    lin_check store v1 ops hist results w = true ->
    forall a b k k' r,
      (a < List.length ops)%nat -> (b < List.length ops)%nat ->
      is_put (nth_op ops a) -> In k (c_ids (nth_op ops a)) -> nth a results RNone = ROk ->
      c_kind (nth_op ops b) = 2%N -> first_id (nth_op ops b) = k' -> mhkey k' = mhkey k ->
      nth b results RNone = RNum r ->
      (h_ret hist a < h_inv hist b)%N ->
      r = 1%N.
Proof. exact lin_put_then_has. Qed.
Print Assumptions C08_put_returned_then_has_finds_it.

Theorem C08_get_returns_a_block_that_was_put_under_that_multihash :
  forall (store : N) (v1 : bool) (ops : list cop) (hist : list (N * N)) (results : list cres) (w : list nat),
    lin_check store v1 ops hist results w = true ->
    forall b x,
      (b < List.length ops)%nat -> c_kind (nth_op ops b) = 3%N -> nth b results RNone = RNum x ->
      mhkey x = mhkey (first_id (nth_op ops b)) /\
      exists a, (a < List.length ops)%nat /\ is_put (nth_op ops a) /\ In x (c_ids (nth_op ops a)) /\
                ~ (h_ret hist b < h_inv hist a)%N.
Proof. exact lin_get_exact. Qed.
Print Assumptions C08_get_returns_a_block_that_was_put_under_that_multihash.

Theorem C08_has_reports_nothing_that_was_never_put :
  forall (store : N) (v1 : bool) (ops : list cop) (hist : list (N * N)) (results : list cres) (w : list nat),
    lin_check store v1 ops hist results w = true ->
    forall b,
      (b < List.length ops)%nat -> c_kind (nth_op ops b) = 2%N -> nth b results RNone = RNum 1%N ->
      exists a x, (a < List.length ops)%nat /\ is_put (nth_op ops a) /\ In x (c_ids (nth_op ops a)) /\
                  mhkey x = mhkey (first_id (nth_op ops b)) /\
                  ~ (h_ret hist b < h_inv hist a)%N.
Proof. exact lin_has_only_put. Qed.
Print Assumptions C08_has_reports_nothing_that_was_never_put.

(* The OnPut callbacks of the deferred writer (registered before the concurrent phase; OnPut itself is
   not an operation of the property): Put's loop -- call every registered callback in order, drop the
   once-only ones -- run n times fires a once-only callback exactly once (if n > 0) and a persistent one
   n times.  [cb_expected] is what the dynamic check (RunConc.prop_conc) demands of the implementation's
   invocation counts, with n = the number of Puts that returned without error. *)
Theorem C08_onput_callbacks_fire_counts :
  forall (cbs : list (nat * bool)) (i : nat) (once : bool) (n : nat),
    NoDup (map fst cbs) -> In (i, once) cbs ->
    count_occ PeanoNat.Nat.eq_dec (cb_fires cbs n) i = N.to_nat (cb_expected once (N.of_nat n)).
Proof. exact cb_fires_counts. Qed.
Print Assumptions C08_onput_callbacks_fire_counts.
