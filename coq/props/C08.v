(* C08 -- concurrent use of the writable stores is race-free and linearizable.
   This file contains only statements closed by [exact]; proofs live in proofs/Monitor*.v.

   [facts] (theories/GeneratedLockFacts.v) is regenerated from the current Go source of
   v2/blockstore/{readonly,readwrite}.go, v2/storage/storage.go and
   v2/storage/deferred/deferredcarwriter.go by harness/lockfacts on every check: per exported
   method one entry per acyclic control-flow path (loops as Iter segments), per `go func`
   literal one table entry per path of its body.  The theorems below are about those tables.

   Reading: [client_code I cd] -- cd is the lock/field-access trace of any finite sequence of calls
   of the exported methods of type I (OnPut excluded), every call along any of its paths, loops
   unrolled any number of times.  [steps tbl (init progs) c] -- c is reachable from the threads
   progs under any interleaving; goroutines started by the methods join as new threads. *)
From Coq Require Import List.
From Coq Require Strings.String.
Import ListNotations.
Import Coq.Strings.String.StringSyntax.
From GoCar Require Import Bytes Monitor GeneratedLockFacts RunConc.
From GoCarProofs Require Import MonitorDRF MonitorLive MonitorInst MonitorExec MonitorFacts MonitorLin.
Local Open Scope string_scope.

(* the generated tables are those of the four types, and every path of every operation of every
   type obeys the lock discipline (finite check by computation over the generated tables) *)
Theorem C08_facts_are_the_four_store_types :
  map i_name facts = ["ReadOnly"; "ReadWrite"; "StorageCar"; "DeferredCarWriter"].
Proof. exact facts_names. Qed.
Print Assumptions C08_facts_are_the_four_store_types.

Theorem C08_lock_discipline_holds :
  Forall (fun I => violations I = []) facts.
Proof. exact facts_discipline. Qed.
Print Assumptions C08_lock_discipline_holds.

(* no data race and no unlock of an unheld mutex, in any reachable configuration, for any number of
   goroutines and any interleaving *)
Theorem C08_no_data_race_no_lock_misuse :
  forall I, In I facts ->
  forall (progs : list (list act)) (c : cfg),
    Forall (client_code I) progs ->
    steps (i_table I) (init progs) c ->
    ~ race c /\ ~ bad_unlock c.
Proof. exact facts_race_free. Qed.
Print Assumptions C08_no_data_race_no_lock_misuse.

(* section isolation: while a thread holds the mutex guarding field f exclusively, no other thread is
   at an access of f; while it holds it shared, no other thread is at a write of f *)
Theorem C08_critical_sections_are_isolated :
  forall I, In I facts ->
  forall (progs : list (list act)) (c : cfg) l t1 mid t2 r f w,
    Forall (client_code I) progs ->
    steps (i_table I) (init progs) c ->
    ts c = l ++ t1 :: mid ++ t2 :: r -> i_exempt I f = false ->
    (holdsW (th t1) (i_guard I f) = true -> ~ accesses t2 f w) /\
    (holdsW (th t2) (i_guard I f) = true -> ~ accesses t1 f w) /\
    (holdsAny (th t1) (i_guard I f) = true -> ~ accesses t2 f true) /\
    (holdsAny (th t2) (i_guard I f) = true -> ~ accesses t1 f true).
Proof. exact facts_isolation. Qed.
Print Assumptions C08_critical_sections_are_isolated.

(* the deadlock clause as far as the model carries it: no reachable configuration is stuck -- as long
   as some goroutine has not finished, some goroutine can take a step (mutexes are taken in one global
   order, DeferredCarWriter.lk before StorageCar.mu, and nobody ends a call holding a lock).  Channel
   operations and user callbacks are steps that are always enabled in the model; the ones that happen
   while a lock is held ([Blk s] is accepted by the discipline with a lock held only if site s is marked
   listed in i_blk) are among the reviewed ones named in the second theorem. *)
Theorem C08_no_stuck_configuration :
  forall I, In I facts ->
  forall (progs : list (list act)) (c : cfg),
    Forall (client_code I) progs ->
    steps (i_table I) (init progs) c ->
    (exists t, In t (ts c) /\ code t <> []) ->
    exists i a c', step (i_table I) c i a c'.
Proof. exact facts_no_deadlock. Qed.
Print Assumptions C08_no_stuck_configuration.

Theorem C08_blocking_while_holding_a_lock_only_at_reviewed_sites :
  forall I, In I facts ->
  forall s, In (s, true) (i_blk I) ->
    In s ["ReadOnly.AllKeysChan/go0: select";
          "ReadOnly.AllKeysChan/go0: call maybeReportError";
          "DeferredCarWriter.Put: call of a function stored in putCb"].
Proof. exact facts_listed_blocking. Qed.
Print Assumptions C08_blocking_while_holding_a_lock_only_at_reviewed_sites.

(* Linearizability, stated over the atomic-section semantics: every call is an invocation, ONE atomic
   step of the sequential specification (its critical section) and a response.  Every such execution
   passes the linearizability check with the order of the critical sections as witness: that order
   lists every call once, never puts a call after one that was invoked after it returned, and the
   sequential specification replayed along it yields exactly the results the calls returned.
   _partial: the reduction from the micro-step semantics of Monitor.v (where a critical section is a
   sequence of field accesses interleaved with other threads' steps) to this atomic-section semantics
   is NOT proved here.  What is proved towards it: C08_critical_sections_are_isolated (no other thread
   performs a conflicting access while a section is open, so a section's accesses commute with every
   concurrent step).  What is missing: a data semantics for Rd/Wr and the commuting (Lipton reduction)
   argument that turns isolation into "each section acts as one step of spec_step"; and the
   correspondence spec_step = what the Go critical sections compute, which is established by the
   differential runs (and by C04's store model for the sequential behaviour), not by proof. *)
Theorem C08_linearizable_partial :
  forall (store : N) (v1 : bool) (ops : list cop) (tr : list ev),
    wf_trace (List.length ops) tr ->
    forallb (supported store) ops = true ->
    lin_check store v1 ops (hist_of (List.length ops) tr) (results_of store v1 ops tr) (lin_order tr) = true.
Proof. exact atomic_sections_linearizable. Qed.
Print Assumptions C08_linearizable_partial.

(* what any history that passes the check guarantees, in the words of the property *)
Theorem C08_put_returned_then_has_finds_it :
  forall (store : N) (v1 : bool) (ops : list cop) (hist : list (N * N)) (results : list cres) (w : list nat),
    lin_check store v1 ops hist results w = true ->
    forall a b k r,
      (a < List.length ops)%nat -> (b < List.length ops)%nat ->
      is_put (nth_op ops a) -> In k (c_ids (nth_op ops a)) -> nth a results RNone = ROk ->
      c_kind (nth_op ops b) = 2%N -> first_id (nth_op ops b) = k -> nth b results RNone = RNum r ->
      (h_ret hist a < h_inv hist b)%N ->
      r = 1%N.
Proof. exact lin_put_then_has. Qed.
Print Assumptions C08_put_returned_then_has_finds_it.

Theorem C08_get_returns_the_block_that_was_put :
  forall (store : N) (v1 : bool) (ops : list cop) (hist : list (N * N)) (results : list cres) (w : list nat),
    lin_check store v1 ops hist results w = true ->
    forall b x,
      (b < List.length ops)%nat -> c_kind (nth_op ops b) = 3%N -> nth b results RNone = RNum x ->
      x = first_id (nth_op ops b) /\
      exists a, (a < List.length ops)%nat /\ is_put (nth_op ops a) /\ In x (c_ids (nth_op ops a)) /\
                ~ (h_ret hist b < h_inv hist a)%N.
Proof. exact lin_get_exact. Qed.
Print Assumptions C08_get_returns_the_block_that_was_put.

Theorem C08_has_reports_nothing_that_was_never_put :
  forall (store : N) (v1 : bool) (ops : list cop) (hist : list (N * N)) (results : list cres) (w : list nat),
    lin_check store v1 ops hist results w = true ->
    forall b,
      (b < List.length ops)%nat -> c_kind (nth_op ops b) = 2%N -> nth b results RNone = RNum 1%N ->
      exists a, (a < List.length ops)%nat /\ is_put (nth_op ops a) /\
                In (first_id (nth_op ops b)) (c_ids (nth_op ops a)) /\
                ~ (h_ret hist b < h_inv hist a)%N.
Proof. exact lin_has_only_put. Qed.
Print Assumptions C08_has_reports_nothing_that_was_never_put.
