(* C12 -- resumption is transparent and refuses mismatched files without touching them.
   Only statements closed by [exact]; proofs are in proofs/Resume*.v.
   Vocabulary (theories/Store.v, theories/Crash.v): [open_new] = OpenReadWrite / NewReadableWritable
   on an empty file; [fe_put]/[run_puts] = Put through the state's front-end; [end_seg] = Discard or
   Finalize; [reopen] = OpenReadWrite / OpenReadableWritable on the existing file (= store.
   ResumableVersion + store.Resume); [run_segs] = a session cut into segments, each ended by Discard or
   Finalize and reopened with the same roots and options; [ws_file] = the bytes of the backing file;
   a result [inr (e, dv)] of [reopen] is an error together with the device, whose [d_log] lists
   every write Resume issued before failing.  [hdrdec] is the CBOR header decoder (oracle). *)
From Coq Require Import Permutation.
From GoCar Require Import Bytes Varint Cid Header Frame V2Header Index Scan Store Crash.
From GoCarProofs Require Import HeaderFacts ResumeInv ResumeReject ResumeTheorems ResumeRefuted.

(* (1) Any way of cutting a put list into segments ended by Discard+reopen or Finalize+reopen:
   every reopen succeeds and the file after the final Finalize is byte-identical to the file of
   the uninterrupted session.  All put lists (rejected puts included), all options, both
   front-ends; sizes below 2^63; header decoder = any function that inverts the encoder on this
   header and reads the pragma as version 2. *)
Theorem C12_transparent :
  forall (hdrdec : bytes -> option (list bytes * N)) (k : skind) (o : wopts) (nilroots : bool)
         (roots : list bytes),
    hdrdec (enc_header (roots_opt nilroots roots) 1) = Some (roots, 1) ->
    (exists r, hdrdec pragma_body = Some (r, 2)) ->
    blen (enc_header (roots_opt nilroots roots) 1) <= w_maxh o ->
    w_maxcid o <= max_digest_alloc ->
    match k with KStorage false => negb (w_v1 o) | _ => false end = false ->
    forall (segs : list (list block * cut)) (last : list block) (s0 : wstate),
    51 + w_dpad o + w_ipad o + ld_size (blen (enc_header (roots_opt nilroots roots) 1))
      + blen (enc_sections (concat (map fst segs) ++ last)) < two63 ->
    open_new k o nilroots roots [] = Ok s0 ->
    exists sN, run_segs hdrdec nilroots s0 segs = Some sN /\
      ws_file (fst (fe_finalize (run_puts sN last))) =
      ws_file (fst (fe_finalize (run_puts s0 (concat (map fst segs) ++ last)))).
Proof. exact C12_transparent_thm. Qed.
Print Assumptions C12_transparent.

(* the same with the concrete canonical-shape decoder: no decoder hypothesis left *)
Theorem C12_transparent_canon :
  forall (k : skind) (o : wopts) (nilroots : bool) (roots : list bytes)
         (segs : list (list block * cut)) (last : list block) (s0 : wstate),
    roots_ok roots ->
    blen (enc_header (roots_opt nilroots roots) 1) <= w_maxh o ->
    w_maxcid o <= max_digest_alloc ->
    match k with KStorage false => negb (w_v1 o) | _ => false end = false ->
    51 + w_dpad o + w_ipad o + ld_size (blen (enc_header (roots_opt nilroots roots) 1))
      + blen (enc_sections (concat (map fst segs) ++ last)) < two63 ->
    open_new k o nilroots roots [] = Ok s0 ->
    exists sN, run_segs dec_header_canon nilroots s0 segs = Some sN /\
      ws_file (fst (fe_finalize (run_puts sN last))) =
      ws_file (fst (fe_finalize (run_puts s0 (concat (map fst segs) ++ last)))).
Proof. exact C12_transparent_canon_thm. Qed.
Print Assumptions C12_transparent_canon.

(* (2) For EVERY byte string: when the part of Resume that precedes its first write refuses
   (version, CARv2 header probe / padding comparison, inner header, Matches), the reopen fails
   with that error and has issued no write: file unchanged, empty log. *)
Theorem C12_rejected_untouched_any_file :
  forall hdrdec k can_truncate o roots file faults e,
    resume_checks hdrdec can_truncate o roots file = Err e ->
    resume hdrdec k can_truncate o roots file faults = inr (e, mkdev file [] faults).
Proof. exact resume_rejected. Qed.
Print Assumptions C12_rejected_untouched_any_file.

(* (2b) WHICH refusal: [resume_refusal] (Crash.v) names the check that refuses -- one constructor
   of [refusal] per error site of store.ResumableVersion / store.Resume before the first write;
   the harness maps the library's error messages to the same names and bin/check compares them.
   For every byte string: the named refusal is returned with its error class and the file is
   untouched; and every refusal of (2) is one of the six. *)
Theorem C12_refusal_any_file :
  forall hdrdec k can_truncate o roots file faults,
    (forall r, resume_refusal hdrdec can_truncate o roots file = Some r ->
               resume hdrdec k can_truncate o roots file faults
               = inr (refusal_err r, mkdev file [] faults)) /\
    (forall e, resume_checks hdrdec can_truncate o roots file = Err e ->
               exists r, resume_refusal hdrdec can_truncate o roots file = Some r /\ e = refusal_err r).
Proof. exact refusal_any_file. Qed.
Print Assumptions C12_refusal_any_file.

(* (2c) headers above the caller's MaxAllowedHeaderSize, whatever the limit is (below or above the
   32 MiB default: since library commit d0c2027 both header reads of a resume run under the
   caller's limit, and (1), (3)-(5) only assume header <= that limit).  For EVERY byte string whose
   header at the data offset declares a length l above the limit: the reopen is refused -- by an
   earlier check, or else as "error reading car header" with the header-too-large class -- never
   as a root mismatch, never accepted, and the file is untouched. *)
Theorem C12_oversized_header_refused :
  forall hdrdec k can_truncate o roots file faults l rest,
    l < two63 -> w_maxh o < l ->
    drop (data_base o) file = put_uv l ++ rest ->
    exists r, resume_refusal hdrdec can_truncate o roots file = Some r /\
              match r with
              | RMismatch => False
              | RDataHeader e => e = EHeaderTooLarge
              | _ => True
              end /\
              resume hdrdec k can_truncate o roots file faults
              = inr (refusal_err r, mkdev file [] faults).
Proof. exact resume_oversized_header. Qed.
Print Assumptions C12_oversized_header_refused.

(* (3) the file any reachable session state leaves behind (after Discard or Finalize), reopened
   with roots that are not a permutation of the session's roots: refused as "mismatching data
   header" (error class: other), untouched. *)
Theorem C12_reject_roots :
  forall (hdrdec : bytes -> option (list bytes * N)) (k : skind) (o : wopts) (nilroots : bool)
         (roots : list bytes),
    hdrdec (enc_header (roots_opt nilroots roots) 1) = Some (roots, 1) ->
    (exists r, hdrdec pragma_body = Some (r, 2)) ->
    blen (enc_header (roots_opt nilroots roots) 1) <= w_maxh o ->
    w_maxcid o <= max_digest_alloc ->
    match k with KStorage false => negb (w_v1 o) | _ => false end = false ->
    forall (segs : list (list (bytes * bytes) * cut)) (last : list (bytes * bytes)) (c : cut)
           (s0 sN : wstate),
    51 + w_dpad o + w_ipad o + ld_size (blen (enc_header (roots_opt nilroots roots) 1))
      + blen (enc_sections (concat (map fst segs) ++ last)) < two63 ->
    open_new k o nilroots roots [] = Ok s0 ->
    run_segs hdrdec nilroots s0 segs = Some sN ->
    forall roots' : list bytes,
    ~ Permutation roots roots' ->
    reopen_refusal hdrdec o roots' (ws_file (end_seg c (run_puts sN last))) = Some RMismatch /\
    reopen hdrdec k o nilroots roots' (ws_file (end_seg c (run_puts sN last))) =
    inr (EOther, mkdev (ws_file (end_seg c (run_puts sN last))) [] []).
Proof. exact C12_reject_roots_thm. Qed.
Print Assumptions C12_reject_roots.

(* (4) ... reopened for the other CAR version: refused by the version check ("cannot resume on CAR
   file with version N", class other), untouched. *)
Theorem C12_reject_version :
  forall (hdrdec : bytes -> option (list bytes * N)) (k : skind) (o : wopts) (nilroots : bool)
         (roots : list bytes),
    hdrdec (enc_header (roots_opt nilroots roots) 1) = Some (roots, 1) ->
    (exists r, hdrdec pragma_body = Some (r, 2)) ->
    blen (enc_header (roots_opt nilroots roots) 1) <= w_maxh o ->
    w_maxcid o <= max_digest_alloc ->
    match k with KStorage false => negb (w_v1 o) | _ => false end = false ->
    forall (segs : list (list (bytes * bytes) * cut)) (last : list (bytes * bytes)) (c : cut)
           (s0 sN : wstate),
    51 + w_dpad o + w_ipad o + ld_size (blen (enc_header (roots_opt nilroots roots) 1))
      + blen (enc_sections (concat (map fst segs) ++ last)) < two63 ->
    open_new k o nilroots roots [] = Ok s0 ->
    run_segs hdrdec nilroots s0 segs = Some sN ->
    reopen_refusal hdrdec (with_v1 o (negb (w_v1 o))) roots (ws_file (end_seg c (run_puts sN last)))
      = Some RVersion /\
    reopen hdrdec k (with_v1 o (negb (w_v1 o))) nilroots roots (ws_file (end_seg c (run_puts sN last))) =
    inr (EOther, mkdev (ws_file (end_seg c (run_puts sN last))) [] []).
Proof. exact C12_reject_version_thm. Qed.
Print Assumptions C12_reject_version.

(* (5) ... reopened with another data padding (CARv2): refused and untouched PROVIDED the file is
   finalized (the CARv2 header records the data offset) or the bytes at the caller's offset are
   not a CARv1 header matching the roots.  The guard is executable (Crash.finalized_file,
   Crash.header_at) and cannot be dropped: (6).  The refusal is [padding_refusal]: "mismatched
   CARv1 offset" on a finalized file; on a non-finalized one whatever the bytes at the caller's
   offset amount to ([refusal_at]: "error reading car header: e", or "mismatching data header"). *)
Theorem C12_reject_padding_partial :
  forall (hdrdec : bytes -> option (list bytes * N)) (k : skind) (o : wopts) (nilroots : bool)
         (roots : list bytes),
    hdrdec (enc_header (roots_opt nilroots roots) 1) = Some (roots, 1) ->
    (exists r, hdrdec pragma_body = Some (r, 2)) ->
    blen (enc_header (roots_opt nilroots roots) 1) <= w_maxh o ->
    w_maxcid o <= max_digest_alloc ->
    match k with KStorage false => negb (w_v1 o) | _ => false end = false ->
    forall (segs : list (list (bytes * bytes) * cut)) (last : list (bytes * bytes)) (c : cut)
           (s0 sN : wstate),
    51 + w_dpad o + w_ipad o + ld_size (blen (enc_header (roots_opt nilroots roots) 1))
      + blen (enc_sections (concat (map fst segs) ++ last)) < two63 ->
    open_new k o nilroots roots [] = Ok s0 ->
    run_segs hdrdec nilroots s0 segs = Some sN ->
    forall p' : N,
    w_v1 o = false -> p' <> w_dpad o -> 51 + p' < two64 ->
    finalized_file (ws_file (end_seg c (run_puts sN last)))
    || negb (header_at hdrdec (with_dpad o p') roots (ws_file (end_seg c (run_puts sN last)))) = true ->
    reopen_refusal hdrdec (with_dpad o p') roots (ws_file (end_seg c (run_puts sN last)))
      = Some (padding_refusal hdrdec (with_dpad o p') roots (ws_file (end_seg c (run_puts sN last)))) /\
    reopen hdrdec k (with_dpad o p') nilroots roots (ws_file (end_seg c (run_puts sN last))) =
    inr (refusal_err (padding_refusal hdrdec (with_dpad o p') roots (ws_file (end_seg c (run_puts sN last)))),
         mkdev (ws_file (end_seg c (run_puts sN last))) [] []).
Proof. exact C12_reject_padding_thm. Qed.
Print Assumptions C12_reject_padding_partial.

(* (6) the unguarded padding clause is FALSE of the code: a session with padding 0 whose one
   block carries a framed CARv1 header as data, discarded, is ACCEPTED by a reopen with padding 96
   (all other hypotheses of (5) hold).  Replayed on the real library:
   corpus/C12/kf-unfinalized-padding-adversarial-data.case. *)
Theorem C12_reject_padding_refuted :
  exists k o nilroots roots puts p' s0 s2,
    w_v1 o = false /\ p' <> w_dpad o /\ 51 + p' < two64 /\
    dec_header_canon (enc_header (roots_opt nilroots roots) 1) = Some (roots, 1) /\
    (exists r, dec_header_canon pragma_body = Some (r, 2)) /\
    blen (enc_header (roots_opt nilroots roots) 1) <= w_maxh o /\
    w_maxcid o <= max_digest_alloc /\
    open_new k o nilroots roots [] = Ok s0 /\
    reopen dec_header_canon k (with_dpad o p') nilroots roots
           (ws_file (end_seg CDiscard (run_puts s0 puts))) = inl s2.
Proof. exact reject_padding_refuted. Qed.
Print Assumptions C12_reject_padding_refuted.
