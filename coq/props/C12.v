(* C12 -- resumption is transparent and refuses mismatched files without touching them.
   Only statements closed by [exact]; proofs are in proofs/Resume*.v.
   Vocabulary (theories/Store.v, theories/Crash.v): [open_new] = OpenReadWrite / NewReadableWritable
   on an empty file; [fe_put]/[run_puts] = Put through the state's front-end; [end_seg] = Discard or
   Finalize; [reopen] = OpenReadWrite / OpenReadableWritable on the existing file (= store.
   ResumableVersion + store.Resume); [run_segs] = a session cut into segments, each ended by Discard or
   Finalize and reopened with the same roots and options; [ws_file] = the bytes of the backing file;
   a result [inr (e, dv)] of [reopen] is an error together with the device, whose [d_log] lists
   every write Resume issued before failing.  [hdrdec] is the CBOR header decoder (oracle). *)
From Coq Require Import Permutation.
From GoCar Require Import Bytes Varint Cid Header Frame V2Header Index Scan Store Crash.
From GoCarProofs Require Import HeaderFacts ResumeInv ResumeReject ResumeTheorems ResumeRefuted.

(* (1) Any way of cutting a put list into segments ended by Discard+reopen or Finalize+reopen:
   every reopen succeeds and the file after the final Finalize is byte-identical to the file of
   the uninterrupted session.  All put lists (rejected puts included), all options, both
   front-ends; sizes below 2^63; header decoder = any function that inverts the encoder on this
   header and reads the pragma as version 2. *)
Theorem C12_transparent :
  forall (hdrdec : bytes -> option (list bytes * N)) (k : skind) (o : wopts) (nilroots : bool)
         (roots : list bytes),
    hdrdec (enc_header (roots_opt nilroots roots) 1) = Some (roots, 1) ->
    (exists r, hdrdec pragma_body = Some (r, 2)) ->
    blen (enc_header (roots_opt nilroots roots) 1) <= w_maxh o ->
    w_maxcid o <= max_digest_alloc ->
    match k with KStorage false => negb (w_v1 o) | _ => false end = false ->
    forall (segs : list (list block * cut)) (last : list block) (s0 : wstate),
    51 + w_dpad o + w_ipad o + ld_size (blen (enc_header (roots_opt nilroots roots) 1))
      + blen (enc_sections (concat (map fst segs) ++ last)) < two63 ->
    open_new k o nilroots roots [] = Ok s0 ->
    exists sN, run_segs hdrdec nilroots s0 segs = Some sN /\
      ws_file (fst (fe_finalize (run_puts sN last))) =
      ws_file (fst (fe_finalize (run_puts s0 (concat (map fst segs) ++ last)))).
Proof. exact C12_transparent_thm. Qed.
Print Assumptions C12_transparent.

(* the same with the concrete canonical-shape decoder: no decoder hypothesis left *)
Theorem C12_transparent_canon :
  forall (k : skind) (o : wopts) (nilroots : bool) (roots : list bytes)
         (segs : list (list block * cut)) (last : list block) (s0 : wstate),
    roots_ok roots ->
    blen (enc_header (roots_opt nilroots roots) 1) <= w_maxh o ->
    w_maxcid o <= max_digest_alloc ->
    match k with KStorage false => negb (w_v1 o) | _ => false end = false ->
    51 + w_dpad o + w_ipad o + ld_size (blen (enc_header (roots_opt nilroots roots) 1))
      + blen (enc_sections (concat (map fst segs) ++ last)) < two63 ->
    open_new k o nilroots roots [] = Ok s0 ->
    exists sN, run_segs dec_header_canon nilroots s0 segs = Some sN /\
      ws_file (fst (fe_finalize (run_puts sN last))) =
      ws_file (fst (fe_finalize (run_puts s0 (concat (map fst segs) ++ last)))).
Proof. exact C12_transparent_canon_thm. Qed.
Print Assumptions C12_transparent_canon.

(* (2) For EVERY byte string: when the part of Resume that precedes its first write refuses
   (version, CARv2 header probe / padding comparison, inner header, Matches), the reopen fails
   with that error and has issued no write: file unchanged, empty log. *)
Theorem C12_rejected_untouched_any_file :
  forall hdrdec k can_truncate o roots file faults e,
    resume_checks hdrdec can_truncate o roots file = Err e ->
    resume hdrdec k can_truncate o roots file faults = inr (e, mkdev file [] faults).
Proof. exact resume_rejected. Qed.
Print Assumptions C12_rejected_untouched_any_file.

(* (3) the file any reachable session state leaves behind (after Discard or Finalize), reopened
   with roots that are not a permutation of the session's roots: refused, untouched. *)
Theorem C12_reject_roots :
  forall (hdrdec : bytes -> option (list bytes * N)) (k : skind) (o : wopts) (nilroots : bool)
         (roots : list bytes),
    hdrdec (enc_header (roots_opt nilroots roots) 1) = Some (roots, 1) ->
    (exists r, hdrdec pragma_body = Some (r, 2)) ->
    blen (enc_header (roots_opt nilroots roots) 1) <= w_maxh o ->
    w_maxcid o <= max_digest_alloc ->
    match k with KStorage false => negb (w_v1 o) | _ => false end = false ->
    forall (segs : list (list (bytes * bytes) * cut)) (last : list (bytes * bytes)) (c : cut)
           (s0 sN : wstate),
    51 + w_dpad o + w_ipad o + ld_size (blen (enc_header (roots_opt nilroots roots) 1))
      + blen (enc_sections (concat (map fst segs) ++ last)) < two63 ->
    open_new k o nilroots roots [] = Ok s0 ->
    run_segs hdrdec nilroots s0 segs = Some sN ->
    forall roots' : list bytes,
    ~ Permutation roots roots' ->
    reopen hdrdec k o nilroots roots' (ws_file (end_seg c (run_puts sN last))) =
    inr (EOther, mkdev (ws_file (end_seg c (run_puts sN last))) [] []).
Proof. exact C12_reject_roots_thm. Qed.
Print Assumptions C12_reject_roots.

(* (4) ... reopened for the other CAR version: refused, untouched. *)
Theorem C12_reject_version :
  forall (hdrdec : bytes -> option (list bytes * N)) (k : skind) (o : wopts) (nilroots : bool)
         (roots : list bytes),
    hdrdec (enc_header (roots_opt nilroots roots) 1) = Some (roots, 1) ->
    (exists r, hdrdec pragma_body = Some (r, 2)) ->
    blen (enc_header (roots_opt nilroots roots) 1) <= w_maxh o ->
    w_maxcid o <= max_digest_alloc ->
    match k with KStorage false => negb (w_v1 o) | _ => false end = false ->
    forall (segs : list (list (bytes * bytes) * cut)) (last : list (bytes * bytes)) (c : cut)
           (s0 sN : wstate),
    51 + w_dpad o + w_ipad o + ld_size (blen (enc_header (roots_opt nilroots roots) 1))
      + blen (enc_sections (concat (map fst segs) ++ last)) < two63 ->
    open_new k o nilroots roots [] = Ok s0 ->
    run_segs hdrdec nilroots s0 segs = Some sN ->
    reopen hdrdec k (with_v1 o (negb (w_v1 o))) nilroots roots (ws_file (end_seg c (run_puts sN last))) =
    inr (EOther, mkdev (ws_file (end_seg c (run_puts sN last))) [] []).
Proof. exact C12_reject_version_thm. Qed.
Print Assumptions C12_reject_version.

(* (5) ... reopened with another data padding (CARv2): refused and untouched PROVIDED the file is
   finalized (the CARv2 header records the data offset) or the bytes at the caller's offset are
   not a CARv1 header matching the roots.  The guard is executable (Crash.finalized_file,
   Crash.header_at) and cannot be dropped: (6). *)
Theorem C12_reject_padding_partial :
  forall (hdrdec : bytes -> option (list bytes * N)) (k : skind) (o : wopts) (nilroots : bool)
         (roots : list bytes),
    hdrdec (enc_header (roots_opt nilroots roots) 1) = Some (roots, 1) ->
    (exists r, hdrdec pragma_body = Some (r, 2)) ->
    blen (enc_header (roots_opt nilroots roots) 1) <= w_maxh o ->
    w_maxcid o <= max_digest_alloc ->
    match k with KStorage false => negb (w_v1 o) | _ => false end = false ->
    forall (segs : list (list (bytes * bytes) * cut)) (last : list (bytes * bytes)) (c : cut)
           (s0 sN : wstate),
    51 + w_dpad o + w_ipad o + ld_size (blen (enc_header (roots_opt nilroots roots) 1))
      + blen (enc_sections (concat (map fst segs) ++ last)) < two63 ->
    open_new k o nilroots roots [] = Ok s0 ->
    run_segs hdrdec nilroots s0 segs = Some sN ->
    forall p' : N,
    w_v1 o = false -> p' <> w_dpad o -> 51 + p' < two64 ->
    finalized_file (ws_file (end_seg c (run_puts sN last)))
    || negb (header_at hdrdec (with_dpad o p') roots (ws_file (end_seg c (run_puts sN last)))) = true ->
    exists e, reopen hdrdec k (with_dpad o p') nilroots roots (ws_file (end_seg c (run_puts sN last))) =
              inr (e, mkdev (ws_file (end_seg c (run_puts sN last))) [] []).
Proof. exact C12_reject_padding_thm. Qed.
Print Assumptions C12_reject_padding_partial.

(* (6) the unguarded padding clause is FALSE of the code: a session with padding 0 whose one
   block carries a framed CARv1 header as data, discarded, is ACCEPTED by a reopen with padding 96
   (all other hypotheses of (5) hold).  Replayed on the real library:
   corpus/C12/kf-unfinalized-padding-adversarial-data.case. *)
Theorem C12_reject_padding_refuted :
  exists k o nilroots roots puts p' s0 s2,
    w_v1 o = false /\ p' <> w_dpad o /\ 51 + p' < two64 /\
    dec_header_canon (enc_header (roots_opt nilroots roots) 1) = Some (roots, 1) /\
    (exists r, dec_header_canon pragma_body = Some (r, 2)) /\
    blen (enc_header (roots_opt nilroots roots) 1) <= w_maxh o /\
    w_maxcid o <= max_digest_alloc /\
    open_new k o nilroots roots [] = Ok s0 /\
    reopen dec_header_canon k (with_dpad o p') nilroots roots
           (ws_file (end_seg CDiscard (run_puts s0 puts))) = inl s2.
Proof. exact reject_padding_refuted. Qed.
Print Assumptions C12_reject_padding_refuted.
