(* C01, reader side -- every reader over a constructed archive returns exactly the roots and the
   (CID, bytes) sequence.  Statements only (closed by [exact]); not wired to a check of their own: the
   integrator combines them with the writer side ("each writer's file = car_file ... of the stored
   blocks") into C01.  Vocabulary as in props/C07.v; additionally
     archive_ok_o hok hdrdec o ro bs    header round-trips through hdrdec and fits o_maxh; every block is
                                        a well-formed CID + data within o_maxs; unless o_trusted, every
                                        block hashes to its CID according to the oracle hok
     root_block_ok b                    well-formed CID, digest within go-cid's 32 MiB cap, section
                                        within the root module's 32 MiB limit
     consistent / id_consistent         sections with equal multihash carry equal bytes / identity
                                        sections carry their digest (both follow from hash-consistency;
                                        after the writers' de-duplication there is one section per key) *)
From GoCar Require Import Bytes Varint Cid Header Frame V2Header Scan Index Store ReadOnly.
From GoCarProofs Require Import HeaderFacts ScanFacts ReadOnlyFacts ReadOnlyRefine ReadOnlyRoundTrip
  ReadOnlyOpen ReadOnlyMain ReadOnlyReaders.

(* v2 BlockReader (NewBlockReader + Next until io.EOF), CARv1 or CARv2 with any data/index padding,
   with or without an embedded index, optional null padding under ZeroLengthSectionAsEOF *)
Theorem C01_block_reader_reads_back :
  forall hok (o : ropts) (ct : container) (ro : option (list bytes)) (bs : list block) (npad : N) (file : bytes),
    archive_ok_o hok dec_header_canon o ro bs ->
    (npad = 0 \/ o_zeof o = true) ->
    car_file ct ro bs npad = Some file ->
    match ct with CV1 => True | CV2 chi clo _ _ _ => chi < two64 /\ clo < two64 /\ 10 <= o_maxh o end ->
    blen file < two63 ->
    br_read_all hok dec_header_canon o file
    = Ok (match ct with CV1 => 1 | CV2 _ _ _ _ _ => 2 end, hdr_roots ro, mkscan bs EEof).
Proof. exact block_reader_reads_back. Qed.
Print Assumptions C01_block_reader_reads_back.

(* root-module reader: car.NewCarReader + Next until io.EOF (= the order car.LoadCar stores blocks in);
   it rejects an empty root list, hence ro <> [] *)
Theorem C01_root_reader_reads_back :
  forall hok (ro : option (list bytes)) (bs : list block),
    roots_ok (hdr_roots ro) -> blen (enc_header ro 1) <= root_max_section -> hdr_roots ro <> [] ->
    Forall root_block_ok bs -> Forall (hash_good hok) bs ->
    root_read_all hok dec_header_canon (ld (enc_header ro 1) ++ enc_sections bs) = Ok (hdr_roots ro, mkscan bs EEof).
Proof. exact root_reader_reads_back. Qed.
Print Assumptions C01_root_reader_reads_back.

(* v2 Reader: NewReader succeeds, DataReader shows exactly the CARv1 payload bytes, Roots are the ro *)
Theorem C01_data_reader_window :
  forall (o : qopts) (ct : container) (ro : option (list bytes)) (bs : list block) (npad : N) (file : bytes),
    car_file ct ro bs npad = Some file -> roots_ok (hdr_roots ro) ->
    (blen (enc_header ro 1) <= q_maxh o /\
     Forall (rblock_ok (q_maxs o) (q_maxcid o)) bs /\ (npad = 0 \/ q_zeof o = true)) ->
    blen file < two63 -> (q_codec o = codec_sorted \/ q_codec o = codec_mh_sorted) ->
    match ct with
    | CV1 => True
    | CV2 chi clo _ _ emb => chi < two64 /\ clo < two64 /\ 10 <= q_maxh o /\
                             (emb <> None -> N.of_nat (length bs) < two31)
    end ->
    exists r, new_reader dec_header_canon (q_maxh o) file = Ok r /\
              data_window r = payload_np ro bs npad /\
              reader_roots dec_header_canon (q_maxh o) r = Ok (hdr_roots ro).
Proof. exact data_reader_reads_back. Qed.
Print Assumptions C01_data_reader_window.

(* read-only blockstore: Roots, AllKeysChan = the CID sequence (as keys), Get of every key = its bytes *)
Theorem C01_readonly_blockstore_reads_back :
  forall (o : qopts) (ct : container) (ro : option (list bytes)) (bs : list block) (npad : N) (file : bytes),
    car_file ct ro bs npad = Some file -> roots_ok (hdr_roots ro) ->
    (blen (enc_header ro 1) <= q_maxh o /\
     Forall (rblock_ok (q_maxs o) (q_maxcid o)) bs /\ (npad = 0 \/ q_zeof o = true)) ->
    blen file < two63 -> (q_codec o = codec_sorted \/ q_codec o = codec_mh_sorted) ->
    match ct with
    | CV1 => True
    | CV2 chi clo _ _ emb => chi < two64 /\ clo < two64 /\ 10 <= q_maxh o /\
                             (emb <> None -> N.of_nat (length bs) < two31)
    end ->
    (q_storeid o = true -> index_wid o ct None = true) -> consistent bs -> id_consistent bs ->
    exists s, ro_open dec_header_canon o file None = Ok s /\
      ro_roots dec_header_canon s = OKeys (hdr_roots ro) /\
      ro_keys dec_header_canon s = KKeys (ref_keys (q_whole o) bs) None /\
      forall c d p, In (c, d) bs -> cid_parse c = Some p -> ro_get s (key_of (q_whole o) c p) = OBytes d.
Proof. exact ro_blockstore_reads_back. Qed.
Print Assumptions C01_readonly_blockstore_reads_back.

(* readable storage: Roots, Get / GetStream of every CID = its bytes *)
Theorem C01_readable_storage_reads_back :
  forall (o : qopts) (ct : container) (ro : option (list bytes)) (bs : list block) (npad : N) (file : bytes),
    car_file ct ro bs npad = Some file -> roots_ok (hdr_roots ro) ->
    (blen (enc_header ro 1) <= q_maxh o /\
     Forall (rblock_ok (q_maxs o) (q_maxcid o)) bs /\ (npad = 0 \/ q_zeof o = true)) ->
    blen file < two63 -> (q_codec o = codec_sorted \/ q_codec o = codec_mh_sorted) ->
    match ct with
    | CV1 => True
    | CV2 chi clo _ _ emb => chi < two64 /\ clo < two64 /\ 10 <= q_maxh o /\
                             (emb <> None -> N.of_nat (length bs) < two31)
    end ->
    (q_storeid o = true -> index_wid o ct None = true) -> consistent bs -> id_consistent bs ->
    exists s, sto_open dec_header_canon o file = Ok s /\
      sto_roots s = OKeys (hdr_roots ro) /\
      forall c d p, In (c, d) bs -> cid_parse c = Some p -> sto_get s (key_of (q_whole o) c p) = OBytes d.
Proof. exact readable_storage_reads_back. Qed.
Print Assumptions C01_readable_storage_reads_back.
