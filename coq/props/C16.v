(* C16 -- a failed write does not poison the store or the archive.
   Statements only (closed by [exact]); the proofs are in proofs/Fault*.v.
   Model: theories/Store.v (device with a fault script: one entry per underlying WriteAt/Write call --
   None = success, Some k = only the first min(k,len) bytes are written and the call returns an error
   -- and per Truncate call of a rewind -- None = done, Some _ = the call fails or the writer has no
   Truncate method) and theories/Fault.v (operations, sticky write error, acknowledged blocks, wf_final).
   kn: 0 blockstore.ReadWrite, 1 / 2 storage on a WriterAt (readable / write-only), 3 storage on a
   plain io.Writer, 4 storage on a WriterAt without a Truncate method ([fopen kn] opens the target).
   [sticky kn s] = the store's sticky write error (writeErr) is set. *)
From GoCar Require Import Bytes Varint Cid Header Frame V2Header Index Store StoreSpec Fault.
From GoCarProofs Require Import StoreInv FaultWf FaultMain FaultRead.

(* (a) For EVERY state (reachable or not), operation and fault script: if an injected fault was
   consumed during the operation (a write call returned an error, with or without a short write),
   the operation returns an error. *)
Theorem C16_failed_write_reports_error :
  forall (hdrdec : bytes -> option (list bytes * N)) kn s op s' out,
    fstep hdrdec kn s op = (s', out) -> fault_hit s s' = true -> is_err out = true.
Proof. exact fault_reports_error. Qed.
Print Assumptions C16_failed_write_reports_error.

(* (b) After any history under any fault script: a Put that returns an error leaves the index
   (what Has/Get consult) as it was, and the file byte for byte as it was -- or, when the part of the
   section that got out cannot be taken back (plain io.Writer; Truncate missing or failing), it sets
   the sticky write error. *)
Theorem C16_failed_put_changes_nothing :
  forall (hdrdec : bytes -> option (list bytes * N)) kn o nilroots roots faults ops s0 sn tr c d s' out,
    base_fits o -> hdr_ok nilroots roots ->
    forallb (op_okb kn) ops = true -> ops_small ops -> blk_small (c, d) ->
    fopen kn o nilroots roots faults = Ok s0 ->
    frun hdrdec kn s0 ops = (sn, tr) ->
    fstep hdrdec kn sn (FPut c d) = (s', out) -> is_err out = true ->
    ws_idx s' = ws_idx sn /\ (ws_file s' = ws_file sn \/ sticky kn s' = true).
Proof. exact failed_put_changes_nothing. Qed.
Print Assumptions C16_failed_put_changes_nothing.

(* ... and that sticky error makes every later Put, PutMany, Finalize and FinalizeReadOnly fail, leaving
   file and index alone; the error stays. *)
Theorem C16_sticky_write_error_refuses :
  forall (hdrdec : bytes -> option (list bytes * N)) kn s op s' out,
    sticky kn s = true -> op_okb kn op = true ->
    (exists c d, op = FPut c d) \/ (exists bs, op = FPutMany bs) \/ op = FFinalize \/ op = FFinalizeRO ->
    fstep hdrdec kn s op = (s', out) ->
    is_err out = true /\ ws_file s' = ws_file s /\ ws_idx s' = ws_idx s /\ sticky kn s' = true.
Proof. exact sticky_error_refuses. Qed.
Print Assumptions C16_sticky_write_error_refuses.

(* (c) The property itself.  For every front-end, option set, root list, fault script and history
   [pre ++ [op]] of the front-end's operations whose last operation is a Finalize (or
   FinalizeReadOnly) that returned success -- the script also decides which Truncate calls fail --:
   the file is well-formed and holds exactly the blocks
   acknowledged to the caller -- [acked] replays the history from what the caller saw: a Put that
   returned success adds its block unless ShouldPut skips it, a failed Put adds nothing, a failed
   PutMany keeps the blocks before the failing one.
   Side conditions: the roots are CIDs go-cid produces, every block and the finished file are
   smaller than 2^63 bytes (Go's int64 offsets). *)
Theorem C16_no_poison :
  forall (hdrdec : bytes -> option (list bytes * N)) kn o nilroots roots faults pre op s0 sn tr,
    hdr_ok nilroots roots ->
    forallb (op_okb kn) (pre ++ [op]) = true -> ops_small (pre ++ [op]) ->
    fopen kn o nilroots roots faults = Ok s0 ->
    frun hdrdec kn s0 (pre ++ [op]) = (sn, tr) ->
    is_finalize op = true -> snd (last tr (s0, ONil)) = ONil ->
    51 + w_dpad o + w_ipad o
       + blen (fpayload nilroots roots (acked o nilroots roots (pre ++ [op]) (map obs_of tr))) < two63 ->
    wf_final (ws_file sn) = Some (roots, acked o nilroots roots (pre ++ [op]) (map obs_of tr)).
Proof. exact no_poison. Qed.
Print Assumptions C16_no_poison.

(* (d) CARv1 mode needs no Finalize: after ANY history under any fault script the file is a
   complete, well-formed CARv1 of exactly the acknowledged blocks (unless the sticky write error is
   set, in which case every later write has been refused). *)
Theorem C16_carv1_complete_at_every_moment :
  forall (hdrdec : bytes -> option (list bytes * N)) kn o nilroots roots faults ops s0 sn tr,
    base_fits o -> hdr_ok nilroots roots ->
    forallb (op_okb kn) ops = true -> ops_small ops ->
    fopen kn o nilroots roots faults = Ok s0 ->
    frun hdrdec kn s0 ops = (sn, tr) ->
    w_v1 o = true -> sticky kn sn = false ->
    wf_final (ws_file sn) = Some (roots, acked o nilroots roots ops (map obs_of tr)).
Proof. exact v1_always_wellformed. Qed.
Print Assumptions C16_carv1_complete_at_every_moment.

(* ... in particular after every Put / PutMany that returned success. *)
Theorem C16_carv1_complete_after_successful_put :
  forall (hdrdec : bytes -> option (list bytes * N)) kn o nilroots roots faults pre op s0 sn tr,
    base_fits o -> hdr_ok nilroots roots ->
    forallb (op_okb kn) (pre ++ [op]) = true -> ops_small (pre ++ [op]) ->
    fopen kn o nilroots roots faults = Ok s0 ->
    frun hdrdec kn s0 (pre ++ [op]) = (sn, tr) ->
    w_v1 o = true -> (exists c d, op = FPut c d) \/ (exists bs, op = FPutMany bs) ->
    snd (last tr (s0, ONil)) = ONil ->
    wf_final (ws_file sn) = Some (roots, acked o nilroots roots (pre ++ [op]) (map obs_of tr)).
Proof. exact v1_complete_after_successful_put. Qed.
Print Assumptions C16_carv1_complete_after_successful_put.

(* (d') Refinement to the abstract map.  After ANY history under any fault script -- failed writes,
   failed truncations, failed Finalize calls, the sticky error set or not, finalized or not -- every
   read operation (Has, Get, GetSize, AllKeysChan; [spec_query]) leaves the state alone and answers
   exactly as the reference map of C04 (StoreSpec.v: m_has, m_get, m_getsize, m_keys) holding the
   acknowledged blocks and the store's closed flag.  Together with (c) (what Finalize leaves in the
   file) this is the no-poisoning property as a refinement: whatever the faults did, the store is
   indistinguishable from the map of the acknowledged puts.  [puts_ok] is C04's side condition (CIDs
   go-cid produces, sections within MaxAllowedSectionSize). *)
Theorem C16_reads_refine_map :
  forall (hdrdec : bytes -> option (list bytes * N)) kn o nilroots roots faults ops s0 sn tr,
    hdr_ok nilroots roots ->
    forallb (op_okb kn) ops = true -> ops_small ops -> puts_ok o ops ->
    fopen kn o nilroots roots faults = Ok s0 ->
    frun hdrdec kn s0 ops = (sn, tr) ->
    51 + w_dpad o + w_ipad o
       + blen (fpayload nilroots roots (acked o nilroots roots ops (map obs_of tr))) < two63 ->
    forall q r,
      spec_query kn o (mkm (acked o nilroots roots ops (map obs_of tr)) (ws_closed sn) (ws_finalized sn)) q = Some r ->
      fstep hdrdec kn sn q = (sn, r).
Proof. exact reads_refine_map. Qed.
Print Assumptions C16_reads_refine_map.

(* (e) Why the fix was needed: with the Put of the unchanged code (put_one_v0: the writer stays where
   the failing call left it) a CID write that fails after the length varint got out is followed by
   a successful Put and a successful Finalize, and the finished file does not parse.  The witness
   is corpus/C16/refuted-partial-section.case; it was replayed on the unchanged library. *)
Theorem C16_unrepaired_put_refuted :
  exists kn v1 faults,
    match ex_run_v0 kn v1 faults with
    | Some (sn, tr) => map snd tr = [OErr EOther; ONil; ONil] /\ wf_final (ws_file sn) = None
    | None => False
    end.
Proof. exact unrepaired_put_refuted. Qed.
Print Assumptions C16_unrepaired_put_refuted.

Theorem C16_unrepaired_put_refuted_stream :
  match ex_run_v0 3 true [None; None; None; Some 0] with
  | Some (sn, tr) => map snd tr = [OErr EOther; ONil; ONil] /\ wf_final (ws_file sn) = None
  | None => False
  end.
Proof. exact unrepaired_put_refuted_stream. Qed.
Print Assumptions C16_unrepaired_put_refuted_stream.
