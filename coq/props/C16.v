(* C16 -- placeholder while the proofs are being written *)
From GoCar Require Import Bytes Store Fault.
