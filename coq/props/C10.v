(* C10 -- container transforms preserve the payload byte-for-byte.
   WrapV1 / WrapV1File, ExtractV1File (new file, over an existing file, in place),
   ReplaceRootsInFile (v2/writer.go), with LoadIndex (v2/index_gen.go) and Header.ReadFrom
   (v2/car.go).  Only statements closed by [exact]; proofs in proofs/Transform*.v, non-vacuity
   Examples in proofs/TransformExamples.v (same bytes as corpus/C10/examples.case).
   [hdrdec] is the CBOR header decoder (an oracle, universally quantified); the theorems that
   need it to invert the encoder say so ([hdr_good], [pragma_good]) and both hold for the
   model's canonical decoder ([hdr_good_canon], [pragma_good_canon]). *)
From GoCar Require Import Bytes Varint Cid Header Frame V2Header Scan Index Transform.
From GoCarProofs Require Import BytesFacts VarintFacts CidFacts HeaderFacts ScanFacts
  TransformFacts TransformWrap TransformReplace TransformExamples.

(* ---- wrap ------------------------------------------------------------------------------------- *)
(* for EVERY source x (valid or not): if WrapV1 succeeds it wrote the pragma, NewHeader(|x|), x
   verbatim, and the serialized index of the records LoadIndex produced from x *)
Theorem C10_wrap_layout_any :
  forall hdrdec o x w, wrap_bytes hdrdec o x = Ok w ->
    exists i0 recs, idx_new (x_codec o) = Some i0 /\ load_index hdrdec o x = Ok recs /\
      w = pragma ++ enc_v2hdr (new_header (blen x)) ++ x ++ idx_write (idx_load recs i0).
Proof. exact wrap_layout_any. Qed.
Print Assumptions C10_wrap_layout_any.

(* for every constructed CARv1 (any roots, any blocks, any acceptable options): WrapV1 succeeds,
   and the index holds exactly one record per non-identity section (every section with
   StoreIdentityCIDs) at the offset of the section's length varint *)
Theorem C10_wrap_layout :
  forall hdrdec o roots bs i0,
    hdr_good hdrdec roots /\
    blen (enc_header (Some roots) 1) <= x_maxh o /\
    Forall (fun b : block =>
              exists p, cid_ok p /\ fst b = cid_enc p /\ blen (c_digest p) <= max_digest_alloc /\
                        blen (fst b) + blen (snd b) < two63 /\
                        (x_storeid o || negb (is_identity p) = true -> blen (fst b) <= x_maxcid o)) bs /\
    blen (enc_payload roots bs) <= x_maxseek o /\ blen (enc_payload roots bs) < two63 ->
    idx_new (x_codec o) = Some i0 ->
    let x := enc_payload roots bs in
    wrap_bytes hdrdec o x
    = Ok (pragma ++ enc_v2hdr (new_header (blen x)) ++ x ++
          idx_write (idx_load (spec_records (x_storeid o) (blen (ld (enc_header (Some roots) 1))) bs) i0)).
Proof. exact wrap_layout_payload. Qed.
Print Assumptions C10_wrap_layout.

(* WrapV1File to another path: the source file is not modified; on failure the destination
   exists and is empty *)
Theorem C10_wrap_file :
  forall hdrdec o x d,
    wrap_file hdrdec o (mkfs (Some x) (DOther d))
    = match wrap_bytes hdrdec o x with
      | Ok w => (Ok tt, mkfs (Some x) (DOther (Some w)))
      | Err e => (Err e, mkfs (Some x) (DOther (Some [])))
      end.
Proof. exact wrap_file_other. Qed.
Print Assumptions C10_wrap_file.

(* the section loop of LoadIndex terminates on every input (the model's fuel never runs out) *)
Theorem C10_wrap_terminates :
  forall hdrdec o x, wrap_bytes hdrdec o x <> Err EFuel.
Proof. exact wrap_bytes_fuel_enough. Qed.
Print Assumptions C10_wrap_terminates.

(* ---- extract ---------------------------------------------------------------------------------- *)
(* for every file a whose pragma reads as version 2, whose header passes Header.ReadFrom and which
   holds the declared window, for every destination state (absent, any existing file, the source
   path itself) and every chunk schedule of the copy: success, the destination is exactly the
   window, and a distinct source is untouched *)
Theorem C10_extract_exact :
  forall hdrdec csz o a dst roots rest used h rest2,
    (forall k, 0 < csz k) ->
    read_header hdrdec (x_maxh o) a = Ok (roots, 2, rest, used) ->
    read_v2hdr rest = Ok (h, rest2) ->
    seek_ok o (h_doff h) = true ->
    h_doff h + h_dsize h <= blen a ->
    let '(r, s') := extract_file hdrdec csz o (mkfs (Some a) dst) in
    r = XOk /\
    dst_content s' = Some (take (h_dsize h) (drop (h_doff h) a)) /\
    (dst <> DSame -> f_src s' = Some a).
Proof. exact extract_exact. Qed.
Print Assumptions C10_extract_exact.

(* the in-place (and every other) copy does not depend on how it is chunked: for ALL file-system
   states and options, any two positive chunk schedules give the same result *)
Theorem C10_extract_chunk_independent :
  forall hdrdec csz1 csz2 o s,
    (forall k, 0 < csz1 k) -> (forall k, 0 < csz2 k) ->
    extract_file hdrdec csz1 o s = extract_file hdrdec csz2 o s.
Proof. exact extract_chunk_independent. Qed.
Print Assumptions C10_extract_chunk_independent.

Theorem C10_extract_terminates :
  forall hdrdec csz o s, (forall k, 0 < csz k) -> fst (extract_file hdrdec csz o s) <> XErr EFuel.
Proof. exact extract_file_fuel_enough. Qed.
Print Assumptions C10_extract_terminates.

(* error branches.  A file shorter than its declared window: io.EOF, and the bytes that could be
   copied have been written over the front of the destination (no truncation) *)
Theorem C10_extract_short_source :
  forall hdrdec csz o a dst roots rest used h rest2,
    (forall k, 0 < csz k) ->
    read_header hdrdec (x_maxh o) a = Ok (roots, 2, rest, used) ->
    read_v2hdr rest = Ok (h, rest2) ->
    seek_ok o (h_doff h) = true ->
    blen a < h_doff h + h_dsize h ->
    let d0 := match dst_content (mkfs (Some a) dst) with Some d => d | None => [] end in
    extract_file hdrdec csz o (mkfs (Some a) dst)
    = (XErr EEof, set_dst (mkfs (Some a) dst) (drop (h_doff h) a ++ drop (blen a - h_doff h) d0)).
Proof. exact extract_short. Qed.
Print Assumptions C10_extract_short_source.

(* a source refused before the destination is opened: an error, nothing created or modified *)
Theorem C10_extract_rejects_untouched :
  forall hdrdec csz o a dst,
    (forall k, 0 < csz k) ->
    ~ (exists roots rest used h rest2,
         read_header hdrdec (x_maxh o) a = Ok (roots, 2, rest, used) /\
         read_v2hdr rest = Ok (h, rest2) /\ seek_ok o (h_doff h) = true) ->
    exists r, r <> XOk /\ extract_file hdrdec csz o (mkfs (Some a) dst) = (r, mkfs (Some a) dst).
Proof. exact extract_rejects_untouched. Qed.
Print Assumptions C10_extract_rejects_untouched.

(* extract (wrap x) = x for EVERY x on which wrapping succeeds, every destination state, every
   chunk schedule, wrap options ow and extract options oe.  Side conditions: file offsets are
   int64 (|x| + 51 < 2^63), the decoder reads the pragma back as version 2, the extract options
   accept the 10-byte pragma and a seek to offset 51. *)
Theorem C10_extract_wrap :
  forall hdrdec csz ow oe x w dst,
    (forall k, 0 < csz k) ->
    wrap_bytes hdrdec ow x = Ok w ->
    blen x + 51 < two63 ->
    (exists rs, hdrdec pragma_body = Some (rs, 2)) -> 10 <= x_maxh oe -> seek_ok oe 51 = true ->
    let '(r, s') := extract_file hdrdec csz oe (mkfs (Some w) dst) in
    r = XOk /\ dst_content s' = Some x /\ (dst <> DSame -> f_src s' = Some w).
Proof. exact extract_wrap. Qed.
Print Assumptions C10_extract_wrap.

(* ---- replace roots ---------------------------------------------------------------------------- *)
(* for EVERY file a (valid or not, CARv1 or CARv2), every root list and options: an error leaves
   the file untouched; success means a = A ++ pre ++ rest where pre is exactly the framed header
   the function read (at offset 0, or at the CARv2 data offset), the new framed header has the
   same length, and the file is now A ++ new header ++ rest *)
Theorem C10_replace_roots :
  forall hdrdec o a roots r f',
    replace_roots hdrdec o (Some a) roots = (r, f') ->
    (forall e, r = Err e -> f' = Some a) /\
    (r = Ok tt ->
       exists A pre rest rs v used,
         a = A ++ pre ++ rest /\
         read_header hdrdec (x_maxh o) (pre ++ rest) = Ok (rs, v, rest, used) /\
         blen pre = blen (new_header_bytes roots) /\
         f' = Some (A ++ new_header_bytes roots ++ rest)).
Proof. exact replace_roots_frame. Qed.
Print Assumptions C10_replace_roots.

(* constructed CARv1 file: equal framed header length <=> accepted, and then the result is the
   payload with the new roots and the same sections; otherwise an error and the same file *)
Theorem C10_replace_roots_v1 :
  forall hdrdec o roots bs roots',
    hdr_good hdrdec roots -> blen (enc_header (Some roots) 1) <= x_maxh o ->
    blen (enc_header (Some roots) 1) < two63 ->
    replace_roots hdrdec o (Some (enc_payload roots bs)) roots'
    = if blen (ld (enc_header (Some roots) 1)) =? blen (ld (enc_header roots' 1))
      then (Ok tt, Some (ld (enc_header roots' 1) ++ enc_sections bs))
      else (Err EOther, Some (enc_payload roots bs)).
Proof. exact replace_roots_v1. Qed.
Print Assumptions C10_replace_roots_v1.

(* constructed CARv2 file: any accepted header h, any data padding bytes, any trailer (index
   padding + index, or nothing) *)
Theorem C10_replace_roots_v2 :
  forall hdrdec o h dpad tail roots bs roots',
    (exists rs, hdrdec pragma_body = Some (rs, 2)) -> 10 <= x_maxh o ->
    (h_hi h < two64 /\ h_lo h < two64 /\ 51 <= h_doff h < two63 /\ 0 < h_dsize h < two63 /\
     h_ioff h < two63) ->
    h_doff h = 51 + blen dpad -> seek_ok o (h_doff h) = true ->
    hdr_good hdrdec roots -> blen (enc_header (Some roots) 1) <= x_maxh o ->
    blen (enc_header (Some roots) 1) < two63 ->
    replace_roots hdrdec o (Some (v2_container h dpad (enc_payload roots bs) tail)) roots'
    = if blen (ld (enc_header (Some roots) 1)) =? blen (ld (enc_header roots' 1))
      then (Ok tt, Some (v2_container h dpad (ld (enc_header roots' 1) ++ enc_sections bs) tail))
      else (Err EOther, Some (v2_container h dpad (enc_payload roots bs) tail)).
Proof. exact replace_roots_v2. Qed.
Print Assumptions C10_replace_roots_v2.

(* the oracle hypotheses are theorems for the model's canonical header decoder *)
Theorem C10_canonical_decoder_is_good :
  (forall roots, roots_ok roots -> hdr_good dec_header_canon roots) /\
  (exists rs, dec_header_canon pragma_body = Some (rs, 2)).
Proof. exact (conj hdr_good_canon pragma_good_canon). Qed.
Print Assumptions C10_canonical_decoder_is_good.
