(* C10 -- container transforms preserve the payload byte-for-byte.
   WrapV1 / WrapV1File, ExtractV1File (new file, over an existing file, in place),
   ReplaceRootsInFile (v2/writer.go), with LoadIndex (v2/index_gen.go) and Header.ReadFrom
   (v2/car.go).  Only statements closed by [exact]; proofs in proofs/Transform*.v, non-vacuity
   Examples in proofs/TransformExamples.v (same bytes as corpus/C10/examples.case).
   [hdrdec] is the CBOR header decoder (an oracle, universally quantified); the theorems that
   need it to invert the encoder say so ([hdr_good], [pragma_good]) and both hold for the
   model's canonical decoder ([hdr_good_canon], [pragma_good_canon]). *)
From Coq Require Import Permutation Sorting.Sorted.
From GoCar Require Import Bytes Varint Cid Header Frame V2Header Scan Index IndexGen Transform.
From GoCarProofs Require Import BytesFacts VarintFacts CidFacts HeaderFacts ScanFacts IndexSort IndexLoad
  IndexGenFacts TransformFacts TransformWrap TransformReplace TransformIndexGen TransformSeq TransformExamples.

(* [srt] is what sort.Sort does inside an index bucket (unstable: the order inside a run of equal
   digests is unspecified).  The layout theorems hold for EVERY function srt; the index-correctness
   theorem needs its contract (a digest-ascending permutation), which the model's own stable sort
   meets (C11_model_sort_meets_contract).  [wrap_bytes] = [wrap_bytes_with sort_by_digest]. *)

(* ---- wrap ------------------------------------------------------------------------------------- *)
(* for EVERY source x (valid or not): if WrapV1 succeeds it wrote the pragma, NewHeader(|x|), x
   verbatim, and the serialized index of the records LoadIndex produced from x *)
Theorem C10_wrap_layout_any :
  forall hdrdec srt o x w, wrap_bytes_with hdrdec srt o x = Ok w ->
    exists i0 recs, idx_new (x_codec o) = Some i0 /\ Transform.load_index hdrdec o x = Ok recs /\
      w = pragma ++ enc_v2hdr (new_header (blen x)) ++ x ++ idx_write (idx_load_with srt recs i0).
Proof. exact wrap_layout_any. Qed.
Print Assumptions C10_wrap_layout_any.

(* for every constructed CARv1 (any roots, any blocks, any acceptable options): WrapV1 succeeds,
   and the index holds exactly one record per non-identity section (every section with
   StoreIdentityCIDs) at the offset of the section's length varint *)
Theorem C10_wrap_layout :
  forall hdrdec srt o roots bs i0,
    hdr_good hdrdec roots /\
    blen (enc_header (Some roots) 1) <= x_maxh o /\
    Forall (fun b : block =>
              exists p, cid_ok p /\ fst b = cid_enc p /\ blen (c_digest p) + 8 <= max_width /\
                        blen (fst b) + blen (snd b) < two63 /\
                        (x_storeid o || negb (is_identity p) = true -> blen (fst b) <= x_maxcid o)) bs /\
    blen (enc_payload roots bs) <= x_maxseek o /\ blen (enc_payload roots bs) < two63 ->
    idx_new (x_codec o) = Some i0 ->
    let x := enc_payload roots bs in
    wrap_bytes_with hdrdec srt o x
    = Ok (pragma ++ enc_v2hdr (new_header (blen x)) ++ x ++
          idx_write (idx_load_with srt (spec_records (x_storeid o) (blen (ld (enc_header (Some roots) 1))) bs) i0)).
Proof. exact wrap_layout_payload. Qed.
Print Assumptions C10_wrap_layout.

(* a CARv2 as the SOURCE (WrapV1 does not refuse it): any characteristics, index offset, padding
   bytes and trailer around a constructed payload.  The WHOLE file becomes the new payload and the
   appended index is that of the INNER CARv1 -- offsets relative to the inner payload, so it does
   not describe the new container's own payload (which is not a CARv1 anyway). *)
Theorem C10_wrap_layout_carv2_source :
  forall hdrdec srt o hi lo ioff pad roots bs trailer i0,
    (exists rs, hdrdec pragma_body = Some (rs, 2)) -> 10 <= x_maxh o -> hdr_good hdrdec roots ->
    blen (enc_header (Some roots) 1) <= x_maxh o ->
    Forall (fun b : block =>
              exists p, cid_ok p /\ fst b = cid_enc p /\ blen (c_digest p) + 8 <= max_width /\
                        blen (fst b) + blen (snd b) < two63 /\
                        (x_storeid o || negb (is_identity p) = true -> blen (fst b) <= x_maxcid o)) bs ->
    hi < two64 -> lo < two64 -> ioff < two63 ->
    let x := pragma ++ enc_v2hdr (mkv2 hi lo (51 + blen pad) (blen (enc_payload roots bs)) ioff) ++
             pad ++ enc_payload roots bs ++ trailer in
    blen x <= x_maxseek o -> blen x < two63 ->
    idx_new (x_codec o) = Some i0 ->
    wrap_bytes_with hdrdec srt o x
    = Ok (pragma ++ enc_v2hdr (new_header (blen x)) ++ x ++
          idx_write (idx_load_with srt (spec_records (x_storeid o) (blen (ld (enc_header (Some roots) 1))) bs) i0)).
Proof. exact wrap_layout_container. Qed.
Print Assumptions C10_wrap_layout_carv2_source.

(* ONE model of LoadIndex.  For every byte string and all options, the copy of LoadIndex that WrapV1
   runs ([Transform.load_index], which also knows the file system's largest seekable offset) returns
   what C03's model returns for a seekable source ([IndexGen.load_index _ SrcSeek]) -- or, only when
   the file system's limit is below int64's, the "seek refused" error.  So every C03 statement about
   LoadIndex (records, options, source independence) is a statement about WrapV1's index generation. *)
Theorem C10_load_index_is_C03s :
  forall hdrdec o all,
    let g := mkgopts (x_zeof o) (x_maxh o) (x_storeid o) (x_maxcid o) in
    (Transform.load_index hdrdec o all = IndexGen.load_index hdrdec SrcSeek g all
     \/ (x_maxseek o < two63 - 1 /\ Transform.load_index hdrdec o all = Err EOther))
    /\ (two63 - 1 <= x_maxseek o ->
        Transform.load_index hdrdec o all = IndexGen.load_index hdrdec SrcSeek g all)
    /\ (forall recs, Transform.load_index hdrdec o all = Ok recs ->
                     IndexGen.load_index hdrdec SrcSeek g all = Ok recs).
Proof.
  exact (fun hdrdec o all => conj (load_index_rel hdrdec o all)
           (conj (load_index_is_indexgen hdrdec o all) (load_index_sound_indexgen hdrdec o all))).
Qed.
Print Assumptions C10_load_index_is_C03s.

(* "a correct index": on every constructed CARv1 the options accept, for any behaviour of sort.Sort
   within its contract, the CARv2 that WrapV1 writes has at its header's IndexOffset bytes that
   index.ReadFrom reads back, entirely, into an index whose GetAll returns, for every key, exactly
   the (payload-relative) offsets of the indexed sections carrying that key, each of which is where
   that section starts in x.  (C03_lookup_exact / C03_lookup_sound and C11_roundtrip, composed with
   the layout theorem.)  [fits]: the record set fits one allocation and, for the multihash codec,
   fewer than 2^31 distinct hash codes (Go's int32 count) -- C11's conditions. *)
Theorem C10_wrap_index_correct :
  forall hdrdec (srt : list irec -> list irec),
    (forall l, Permutation (srt l) l /\
               StronglySorted (fun a b => bytes_leb (r_digest a) (r_digest b) = true) (srt l)) ->
  forall o roots bs i0,
    hdr_good hdrdec roots /\
    blen (enc_header (Some roots) 1) <= x_maxh o /\
    Forall (fun b : block =>
              exists p, cid_ok p /\ fst b = cid_enc p /\ blen (c_digest p) + 8 <= max_width /\
                        blen (fst b) + blen (snd b) < two63 /\
                        (x_storeid o || negb (is_identity p) = true -> blen (fst b) <= x_maxcid o)) bs /\
    blen (enc_payload roots bs) <= x_maxseek o /\ blen (enc_payload roots bs) < two63 ->
    idx_new (x_codec o) = Some i0 ->
    let g := mkgopts (x_zeof o) (x_maxh o) (x_storeid o) (x_maxcid o) in
    let hl := ld_size (blen (enc_header (Some roots) 1)) in
    let x := enc_payload roots bs in
    (blen (compact (section_recs g hl bs)) <= max_alloc /\
     (x_codec o = codec_mh_sorted -> N.of_nat (length (group_by r_code (section_recs g hl bs))) < two31)) ->
    exists i w,
      wrap_bytes_with hdrdec srt o x = Ok w /\
      w = pragma ++ enc_v2hdr (new_header (blen x)) ++ x ++ idx_write i /\
      idx_read (drop (h_ioff (new_header (blen x))) w) = Ok (i, []) /\
      (forall code d, Permutation (idx_getall i code d)
                                  (spec_lookup g (negb (x_codec o =? codec_sorted)) code d hl bs)) /\
      (forall code d off, In off (idx_getall i code d) ->
         exists c dd, section_at x off = Some (c, dd) /\ section_indexed g c = true /\
                      key_match (negb (x_codec o =? codec_sorted)) code d c = true).
Proof. exact wrap_index_correct. Qed.
Print Assumptions C10_wrap_index_correct.

(* WrapV1File to another path: the source file is not modified; on failure the destination
   exists and is empty *)
Theorem C10_wrap_file :
  forall hdrdec srt o x d,
    wrap_file_with hdrdec srt o (mkfs (Some x) (DOther d))
    = match wrap_bytes_with hdrdec srt o x with
      | Ok w => (Ok tt, mkfs (Some x) (DOther (Some w)))
      | Err e => (Err e, mkfs (Some x) (DOther (Some [])))
      end.
Proof. exact wrap_file_other. Qed.
Print Assumptions C10_wrap_file.

(* the destination STATE: whatever file is at the destination path beforehand (absent, shorter,
   longer than what is written) the outcome is the same -- os.Create truncates -- and on success
   the destination is exactly pragma ++ header ++ source ++ index, nothing after it *)
Theorem C10_wrap_file_destination_state :
  forall hdrdec srt o x d d',
    wrap_file_with hdrdec srt o (mkfs (Some x) (DOther d)) = wrap_file_with hdrdec srt o (mkfs (Some x) (DOther d')).
Proof. exact wrap_file_dest_irrelevant. Qed.
Print Assumptions C10_wrap_file_destination_state.

(* ... and when the destination path IS the source path the source has been emptied before it is
   read: the call fails and leaves an empty file, for every source *)
Theorem C10_wrap_file_same_path :
  forall hdrdec srt o x,
    wrap_file_with hdrdec srt o (mkfs (Some x) DSame) = (Err EOther, mkfs (Some []) DSame).
Proof. exact wrap_file_same. Qed.
Print Assumptions C10_wrap_file_same_path.

(* WrapV1 accepts every Option, hence also UseDataPadding / UseIndexPadding: at HEAD they are ignored --
   whatever paddings are passed, the result is the one without them, i.e. (by C10_wrap_layout_any)
   DataOffset = 51, IndexOffset = 51 + |x|, payload and index written back to back, and the header
   never advertises an offset the bytes do not have *)
Theorem C10_wrap_ignores_padding_options :
  forall hdrdec srt o dpad ipad x,
    wrap_bytes_opts hdrdec srt (mkwrapopts o dpad ipad) x = wrap_bytes_opts hdrdec srt (mkwrapopts o 0 0) x
    /\ wrap_bytes_opts hdrdec srt (mkwrapopts o dpad ipad) x = wrap_bytes_with hdrdec srt o x.
Proof. exact wrap_ignores_padding. Qed.
Print Assumptions C10_wrap_ignores_padding_options.

(* the section loop of LoadIndex terminates on every input (the model's fuel never runs out) *)
Theorem C10_wrap_terminates :
  forall hdrdec srt o x, wrap_bytes_with hdrdec srt o x <> Err EFuel.
Proof. exact wrap_bytes_fuel_enough. Qed.
Print Assumptions C10_wrap_terminates.

(* ---- extract ---------------------------------------------------------------------------------- *)
(* for every file a whose pragma reads as version 2, whose header passes Header.ReadFrom and which
   holds the declared window, for every destination state (absent, any existing file, the source
   path itself) and every chunk schedule of the copy: success, the destination is exactly the
   window, and a distinct source is untouched *)
Theorem C10_extract_exact :
  forall hdrdec csz o a dst roots rest used h rest2,
    (forall k, 0 < csz k) ->
    read_header hdrdec (x_maxh o) a = Ok (roots, 2, rest, used) ->
    read_v2hdr rest = Ok (h, rest2) ->
    seek_ok o (h_doff h) = true ->
    h_doff h + h_dsize h <= blen a ->
    let '(r, s') := extract_file hdrdec csz o (mkfs (Some a) dst) in
    r = XOk /\
    dst_content s' = Some (take (h_dsize h) (drop (h_doff h) a)) /\
    (dst <> DSame -> f_src s' = Some a).
Proof. exact extract_exact. Qed.
Print Assumptions C10_extract_exact.

(* exactly which CARv2 headers are accepted: for ALL uint64 field values, Header.ReadFrom on the 40
   encoded bytes succeeds iff data offset >= 51, data size > 0, and data offset / data size / index
   offset are non-negative as int64.  Characteristics and the VALUE of the index offset (inside the
   payload, before it, past the end of the file) are never looked at. *)
Theorem C10_extract_header_acceptance :
  forall h rest,
    h_hi h < two64 -> h_lo h < two64 -> h_doff h < two64 -> h_dsize h < two64 -> h_ioff h < two64 ->
    read_v2hdr (enc_v2hdr h ++ rest)
    = if (51 <=? h_doff h) && (h_doff h <? two63) && (0 <? h_dsize h) && (h_dsize h <? two63) &&
         (h_ioff h <? two63)
      then Ok (h, rest) else Err EOther.
Proof. exact read_v2hdr_enc_exact. Qed.
Print Assumptions C10_extract_header_acceptance.

(* ... and what ExtractV1File does for EVERY such header on a = pragma ++ header ++ body, every
   destination state and chunk schedule: accepted and the file holds the window => exactly the window
   (an embedded index, index padding, an index offset pointing into the payload change nothing);
   accepted but the window runs past the end of the file => io.EOF after copying what there is;
   not accepted (or the seek is refused) => an error, nothing created or modified *)
Theorem C10_extract_container :
  forall hdrdec csz o h body dst,
    (forall k, 0 < csz k) ->
    (exists rs, hdrdec pragma_body = Some (rs, 2)) -> 10 <= x_maxh o ->
    h_hi h < two64 -> h_lo h < two64 -> h_doff h < two64 -> h_dsize h < two64 -> h_ioff h < two64 ->
    let a := pragma ++ enc_v2hdr h ++ body in
    let s := mkfs (Some a) dst in
    if v2hdr_accepted h && seek_ok o (h_doff h) then
      if h_doff h + h_dsize h <=? blen a then
        fst (extract_file hdrdec csz o s) = XOk /\
        dst_content (snd (extract_file hdrdec csz o s)) = Some (take (h_dsize h) (drop (h_doff h) a)) /\
        (dst <> DSame -> f_src (snd (extract_file hdrdec csz o s)) = Some a)
      else
        extract_file hdrdec csz o s
        = (XErr EEof, set_dst s (drop (h_doff h) a ++
                                 drop (blen a - h_doff h) (match dst_content s with Some d => d | None => [] end)))
    else extract_file hdrdec csz o s = (XErr EOther, s).
Proof. exact extract_container. Qed.
Print Assumptions C10_extract_container.

(* the in-place (and every other) copy does not depend on how it is chunked: for ALL file-system
   states and options, any two positive chunk schedules give the same result *)
Theorem C10_extract_chunk_independent :
  forall hdrdec csz1 csz2 o s,
    (forall k, 0 < csz1 k) -> (forall k, 0 < csz2 k) ->
    extract_file hdrdec csz1 o s = extract_file hdrdec csz2 o s.
Proof. exact extract_chunk_independent. Qed.
Print Assumptions C10_extract_chunk_independent.

Theorem C10_extract_terminates :
  forall hdrdec csz o s, (forall k, 0 < csz k) -> fst (extract_file hdrdec csz o s) <> XErr EFuel.
Proof. exact extract_file_fuel_enough. Qed.
Print Assumptions C10_extract_terminates.

(* error branches.  A file shorter than its declared window: io.EOF, and the bytes that could be
   copied have been written over the front of the destination (no truncation) *)
Theorem C10_extract_short_source :
  forall hdrdec csz o a dst roots rest used h rest2,
    (forall k, 0 < csz k) ->
    read_header hdrdec (x_maxh o) a = Ok (roots, 2, rest, used) ->
    read_v2hdr rest = Ok (h, rest2) ->
    seek_ok o (h_doff h) = true ->
    blen a < h_doff h + h_dsize h ->
    let d0 := match dst_content (mkfs (Some a) dst) with Some d => d | None => [] end in
    extract_file hdrdec csz o (mkfs (Some a) dst)
    = (XErr EEof, set_dst (mkfs (Some a) dst) (drop (h_doff h) a ++ drop (blen a - h_doff h) d0)).
Proof. exact extract_short. Qed.
Print Assumptions C10_extract_short_source.

(* a source refused before the destination is opened: an error, nothing created or modified *)
Theorem C10_extract_rejects_untouched :
  forall hdrdec csz o a dst,
    (forall k, 0 < csz k) ->
    ~ (exists roots rest used h rest2,
         read_header hdrdec (x_maxh o) a = Ok (roots, 2, rest, used) /\
         read_v2hdr rest = Ok (h, rest2) /\ seek_ok o (h_doff h) = true) ->
    exists r, r <> XOk /\ extract_file hdrdec csz o (mkfs (Some a) dst) = (r, mkfs (Some a) dst).
Proof. exact extract_rejects_untouched. Qed.
Print Assumptions C10_extract_rejects_untouched.

(* extract (wrap x) = x for EVERY x on which wrapping succeeds, every destination state, every
   chunk schedule, wrap options ow and extract options oe.  Side conditions: file offsets are
   int64 (|x| + 51 < 2^63), the decoder reads the pragma back as version 2, the extract options
   accept the 10-byte pragma and a seek to offset 51. *)
Theorem C10_extract_wrap :
  forall hdrdec srt csz ow oe x w dst,
    (forall k, 0 < csz k) ->
    wrap_bytes_with hdrdec srt ow x = Ok w ->
    blen x + 51 < two63 ->
    (exists rs, hdrdec pragma_body = Some (rs, 2)) -> 10 <= x_maxh oe -> seek_ok oe 51 = true ->
    let '(r, s') := extract_file hdrdec csz oe (mkfs (Some w) dst) in
    r = XOk /\ dst_content s' = Some x /\ (dst <> DSame -> f_src s' = Some w).
Proof. exact extract_wrap. Qed.
Print Assumptions C10_extract_wrap.

(* the destination PATH: a symlink to the source, a hard link, an unnormalised or a relative
   spelling of it are the same FILE, and the code never compares path strings: every such alias gets
   exactly the in-place semantics of the theorems above (destination state DSame) *)
Theorem C10_extract_in_place_through_alias :
  forall p, (forall d, p <> POther d) -> resolve_dest p = DSame.
Proof. exact resolve_alias. Qed.
Print Assumptions C10_extract_in_place_through_alias.

(* a CARv1 as the source of ExtractV1File: ErrAlreadyV1, nothing created or modified, for every
   constructed CARv1 the options can read and every destination *)
Theorem C10_extract_carv1_source :
  forall hdrdec csz o roots bs dst,
    hdr_good hdrdec roots -> blen (enc_header (Some roots) 1) <= x_maxh o ->
    blen (enc_header (Some roots) 1) < two63 ->
    extract_file hdrdec csz o (mkfs (Some (enc_payload roots bs)) dst)
    = (XAlreadyV1, mkfs (Some (enc_payload roots bs)) dst).
Proof. exact extract_carv1_source. Qed.
Print Assumptions C10_extract_carv1_source.

(* ---- attach index -------------------------------------------------------------------------------- *)
(* AS FOUND, AttachIndex fails for EVERY input (O_APPEND + WriteAt) and attaches nothing; an absent
   file is created empty.  Repaired by notes/fixes/C10-attachindex-append.patch. *)
Theorem C10_attach_index_refuted_as_found :
  forall f i off,
    attach_index_as_found f i off = (Err EOther, Some (match f with Some a => a | None => [] end)).
Proof. exact attach_as_found_never_attaches. Qed.
Print Assumptions C10_attach_index_refuted_as_found.

(* repaired: for every file (absent = empty), index and int64 offset, exactly the serialized index
   is written at the offset (zero-filled gap past the end), nothing else changes; a negative int64
   offset is refused and nothing changes *)
Theorem C10_attach_index :
  forall f i off,
    attach_index f i off
    = if two63 <=? off then (Err EOther, Some (match f with Some a => a | None => [] end))
      else (Ok tt, Some (write_at (match f with Some a => a | None => [] end) off (idx_write i))).
Proof. exact (fun f i off => eq_refl). Qed.
Print Assumptions C10_attach_index.

(* at or after the end of a CARv2's data payload: pragma, header and payload window are untouched,
   and index.ReadFrom at the offset yields the index (for every index that is the result of a read) *)
Theorem C10_attach_index_preserves_payload :
  forall a i off h s rest0,
    off < two63 -> off <= blen a -> 51 <= h_doff h -> h_doff h + h_dsize h <= off ->
    idx_read s = Ok (i, rest0) ->
    exists a', attach_index (Some a) i off = (Ok tt, Some a') /\
               take 51 a' = take 51 a /\ payload_window h a' = payload_window h a /\
               idx_read (drop off a') = Ok (i, drop (off + blen (idx_write i)) a).
Proof. exact attach_index_preserves_payload. Qed.
Print Assumptions C10_attach_index_preserves_payload.

(* ---- composition ------------------------------------------------------------------------------------ *)
(* ANY finite sequence of transforms applied to one file -- WrapV1 into a fresh file, ExtractV1File
   in place, ReplaceRootsInFile, AttachIndex -- starting from a constructed CARv1 with blocks bs,
   whatever each step's options and outcome (success or error), leaves a file from which peeling the
   CARv2 containers reaches a CARv1 whose section bytes are exactly those of bs.  By induction over
   the sequence on the model the harness runs ([xrun]).  What the caller must respect is the
   executable [seq_guard]: an AttachIndex offset at or after the end of the data payload of the CARv2
   it is applied to, and file sizes within int64; replacement roots must encode to a header the
   decoder reads as version 1. *)
Theorem C10_sequence_preserves_blocks :
  forall hdrdec srt csz,
    (forall k, 0 < csz k) -> (exists rs, hdrdec pragma_body = Some (rs, 2)) ->
  forall bs ops roots,
    ((exists rs, hdrdec (enc_header (Some roots) 1) = Some (rs, 1)) /\ blen (enc_header (Some roots) 1) < two63) ->
    Forall (fun op => match op with
                      | OReplace _ r => (exists rs, hdrdec (enc_header r 1) = Some (rs, 1)) /\
                                        blen (enc_header r 1) < two63
                      | _ => True
                      end) ops ->
    seq_guard hdrdec srt csz ops (enc_payload roots bs) = true ->
    exists n, innermost_sections hdrdec n (snd (xrun hdrdec srt csz ops (enc_payload roots bs)))
              = Some (enc_sections bs).
Proof. exact xrun_preserves_blocks. Qed.
Print Assumptions C10_sequence_preserves_blocks.

(* ---- replace roots ---------------------------------------------------------------------------- *)
(* for EVERY file a (valid or not, CARv1 or CARv2), every root list and options: an error leaves
   the file untouched; success means a = A ++ pre ++ rest where pre is exactly the framed header
   the function read (at offset 0, or at the CARv2 data offset), the new framed header has the
   same length, and the file is now A ++ new header ++ rest *)
Theorem C10_replace_roots :
  forall hdrdec o a roots r f',
    replace_roots hdrdec o (Some a) roots = (r, f') ->
    (forall e, r = Err e -> f' = Some a) /\
    (r = Ok tt ->
       exists A pre rest rs v used,
         a = A ++ pre ++ rest /\
         read_header hdrdec (x_maxh o) (pre ++ rest) = Ok (rs, v, rest, used) /\
         blen pre = blen (new_header_bytes roots) /\
         f' = Some (A ++ new_header_bytes roots ++ rest)).
Proof. exact replace_roots_frame. Qed.
Print Assumptions C10_replace_roots.

(* constructed CARv1 file: equal framed header length <=> accepted, and then the result is the
   payload with the new roots and the same sections; otherwise an error and the same file *)
Theorem C10_replace_roots_v1 :
  forall hdrdec o roots bs roots',
    hdr_good hdrdec roots -> blen (enc_header (Some roots) 1) <= x_maxh o ->
    blen (enc_header (Some roots) 1) < two63 ->
    replace_roots hdrdec o (Some (enc_payload roots bs)) roots'
    = if blen (ld (enc_header (Some roots) 1)) =? blen (ld (enc_header roots' 1))
      then (Ok tt, Some (ld (enc_header roots' 1) ++ enc_sections bs))
      else (Err EOther, Some (enc_payload roots bs)).
Proof. exact replace_roots_v1. Qed.
Print Assumptions C10_replace_roots_v1.

(* constructed CARv2 file: any accepted header h, any data padding bytes, any trailer (index
   padding + index, or nothing) *)
Theorem C10_replace_roots_v2 :
  forall hdrdec o h dpad tail roots bs roots',
    (exists rs, hdrdec pragma_body = Some (rs, 2)) -> 10 <= x_maxh o ->
    (h_hi h < two64 /\ h_lo h < two64 /\ 51 <= h_doff h < two63 /\ 0 < h_dsize h < two63 /\
     h_ioff h < two63) ->
    h_doff h = 51 + blen dpad -> seek_ok o (h_doff h) = true ->
    hdr_good hdrdec roots -> blen (enc_header (Some roots) 1) <= x_maxh o ->
    blen (enc_header (Some roots) 1) < two63 ->
    replace_roots hdrdec o (Some (v2_container h dpad (enc_payload roots bs) tail)) roots'
    = if blen (ld (enc_header (Some roots) 1)) =? blen (ld (enc_header roots' 1))
      then (Ok tt, Some (v2_container h dpad (ld (enc_header roots' 1) ++ enc_sections bs) tail))
      else (Err EOther, Some (v2_container h dpad (enc_payload roots bs) tail)).
Proof. exact replace_roots_v2. Qed.
Print Assumptions C10_replace_roots_v2.

(* the oracle hypotheses are theorems for the model's canonical header decoder *)
Theorem C10_canonical_decoder_is_good :
  (forall roots, roots_ok roots -> hdr_good dec_header_canon roots) /\
  (exists rs, dec_header_canon pragma_body = Some (rs, 2)).
Proof. exact (conj hdr_good_canon pragma_good_canon). Qed.
Print Assumptions C10_canonical_decoder_is_good.
