(* C03 -- index soundness and completeness for every payload, codec and reader kind.
   Only statements closed by [exact]; proofs live in proofs/IndexGen*.v (and Index*.v).

   Vocabulary (theories/IndexGen.v): [load_index hdrdec k o file] is LoadIndex up to idx.Load as the
   tree is now (with the two repairs delivered with this property); [load_index_gen .. as_found ..] is
   the code as it was found.  k = SrcSeek (bytes.Reader, os.File, io.SectionReader, ...) or SrcPlain
   (no Seek method -- a bare io.Reader, bufio.Reader, bytes.Buffer: discarding wrapper with its own
   offset counter, whether or not the source has ReadByte); [load_index_reader_at] is the
   io.ReaderAt path through NewReader(..).DataReader().  Archives are CONSTRUCTED ([enc_payload roots
   bs], [v2_container ..]), so "valid" never rests on a decoder's verdict.  Layer B: [sections_at],
   [section_recs], [spec_lookup] (offsets of the indexed sections carrying the key, in payload order),
   [section_at] (reference decode at an offset).

   The local notations below only abbreviate hypotheses that are repeated verbatim; they are
   notations, not definitions: every statement is what it expands to.
   * [sort_ok srt]: srt behaves like sort.Sort (a digest-ascending permutation; ties unspecified).
   * [blocks_ok bs]: every section has a well-formed CID (go-cid's own shapes, [cid_ok]) whose digest
     fits an index bucket (32 MiB - 8) and a length below 2^63.
   * [cids_fit o bs]: every indexed CID is within MaxIndexCidSize.
   * [header_ok hdrdec o roots]: the CBOR decoder (an oracle) inverts the encoder on this header,
     which is within MaxAllowedHeaderSize; [pragma_ok]: likewise for the 11-byte CARv2 pragma.
     Both hold for the canonical decoder: C03_hypotheses_hold_for_canonical_decoder. *)
From Coq Require Import Permutation Sorting.Sorted.
From GoCar Require Import Bytes Varint Cid Header Frame V2Header Scan Index IndexGen.
From GoCarProofs Require Import BytesFacts CidFacts HeaderFacts ScanFacts IndexSort IndexLoad IndexCanon
  IndexRoundtrip IndexGenFacts IndexGenLookup IndexGenExamples IndexGenRog IndexGenMore.

Local Notation sort_ok srt :=
  (forall l, Permutation (srt l) l /\
             StronglySorted (fun a b => bytes_leb (r_digest a) (r_digest b) = true) (srt l)).
Local Notation blocks_ok bs :=
  (Forall (fun b : block => exists p, cid_ok p /\ fst b = cid_enc p /\
                                      blen (c_digest p) + 8 <= max_width /\
                                      blen (fst b) + blen (snd b) < two63) bs).
Local Notation cids_fit o bs :=
  (Forall (fun b : block => section_indexed o (fst b) = true -> blen (fst b) <= g_max_cid o) bs).
Local Notation header_ok hdrdec o roots :=
  (hdrdec (enc_header (Some roots) 1) = Some (roots, 1) /\
   blen (enc_header (Some roots) 1) <= g_maxh o /\ blen (enc_header (Some roots) 1) < two63).
Local Notation pragma_ok hdrdec o :=
  ((exists r, hdrdec pragma_body = Some (r, 2)) /\ 10 <= g_maxh o).
Local Notation hlen roots := (ld_size (blen (enc_header (Some roots) 1))).

(* ---- (1) the records: exactly the indexed sections with their payload-relative offsets ---------- *)
Theorem C03_records_exact_carv1 :
  forall hdrdec k o roots bs,
    header_ok hdrdec o roots -> blocks_ok bs -> cids_fit o bs ->
    blen (enc_payload roots bs) < two63 ->
    load_index hdrdec k o (enc_payload roots bs) = Ok (section_recs o (hlen roots) bs).
Proof. exact load_index_v1. Qed.
Print Assumptions C03_records_exact_carv1.

(* CARv2: any characteristics, ANY padding bytes of any length, anything after the payload
   (index, index padding, garbage); the offsets are the same payload-relative ones *)
Theorem C03_records_exact_carv2 :
  forall hdrdec k o hi lo ioff pad roots bs trailer,
    pragma_ok hdrdec o -> header_ok hdrdec o roots -> blocks_ok bs -> cids_fit o bs ->
    hi < two64 -> lo < two64 -> ioff < two63 ->
    blen (v2_container hi lo ioff pad (enc_payload roots bs) trailer) < two63 ->
    load_index hdrdec k o (v2_container hi lo ioff pad (enc_payload roots bs) trailer)
    = Ok (section_recs o (hlen roots) bs).
Proof. exact load_index_v2. Qed.
Print Assumptions C03_records_exact_carv2.

(* ---- (2) source independence, in full: seekable, plain reader, ReaderAt; CARv1 and CARv2 ---------- *)
Theorem C03_source_independent_carv1 :
  forall hdrdec k k' o roots bs,
    header_ok hdrdec o roots -> blocks_ok bs -> cids_fit o bs ->
    blen (enc_payload roots bs) < two63 ->
    load_index hdrdec k o (enc_payload roots bs) = load_index hdrdec k' o (enc_payload roots bs)
    /\ load_index_reader_at hdrdec o (enc_payload roots bs) = load_index hdrdec k o (enc_payload roots bs).
Proof. exact source_independent_v1. Qed.
Print Assumptions C03_source_independent_carv1.

Theorem C03_source_independent_carv2 :
  forall hdrdec k k' o hi lo ioff pad roots bs trailer,
    pragma_ok hdrdec o -> header_ok hdrdec o roots -> blocks_ok bs -> cids_fit o bs ->
    hi < two64 -> lo < two64 -> ioff < two63 ->
    blen (v2_container hi lo ioff pad (enc_payload roots bs) trailer) < two63 ->
    load_index hdrdec k o (v2_container hi lo ioff pad (enc_payload roots bs) trailer)
    = load_index hdrdec k' o (v2_container hi lo ioff pad (enc_payload roots bs) trailer)
    /\ load_index_reader_at hdrdec o (v2_container hi lo ioff pad (enc_payload roots bs) trailer)
       = load_index hdrdec k o (v2_container hi lo ioff pad (enc_payload roots bs) trailer)
    /\ load_index hdrdec k o (v2_container hi lo ioff pad (enc_payload roots bs) trailer)
       = load_index hdrdec k' o (enc_payload roots bs).
Proof. exact source_independent_v2. Qed.
Print Assumptions C03_source_independent_carv2.

(* the code AS FOUND violated it: CARv1 through a plain io.Reader, every offset short by the header
   length (witness replayed on the real code: corpus/C03/examples.case); repaired by
   notes/fixes/C03-loadindex-plain-reader.patch *)
Theorem C03_source_independent_refuted_as_found :
  exists o file recs recs',
    load_index_gen dec_header_canon as_found SrcSeek o file = Ok recs /\
    load_index_gen dec_header_canon as_found SrcPlain o file = Ok recs' /\
    map r_off recs = [18; 38; 47] /\ map r_off recs' = [0; 20; 29].
Proof. exact source_dependent_as_found. Qed.
Print Assumptions C03_source_independent_refuted_as_found.

(* second defect of the code as found: a CARv2 whose payload has no sections, followed by the index
   the library itself writes for it, is not indexable (the index bytes are read as a section) --
   also with the first repair alone; repaired by notes/fixes/C03-loadindex-empty-payload.patch *)
Theorem C03_records_exact_carv2_refuted_as_found :
  load_index_gen dec_header_canon as_found SrcSeek exg_opts
    (v2_container 0 0 69 [] (enc_payload [] []) [x81; x08; x00; x00; x00; x00]) = Err EOther /\
  load_index_gen dec_header_canon (mkfixes true false) SrcPlain exg_opts
    (v2_container 0 0 69 [] (enc_payload [] []) [x81; x08; x00; x00; x00; x00]) = Err EOther.
Proof. exact empty_payload_fails_as_found. Qed.
Print Assumptions C03_records_exact_carv2_refuted_as_found.

(* ---- (3) lookups: exactly the offsets of the indexed sections carrying the key ------------------- *)
(* on-disk codecs, any behaviour of sort.Sort: digest only for car-index-sorted, (code, digest) for
   car-multihash-index-sorted; "as a multiset" because GetAll's order inside equal digests is
   sort.Sort's *)
Theorem C03_lookup_exact :
  forall (srt : list irec -> list irec), sort_ok srt ->
  forall o roots bs codec i0 code d,
    blocks_ok bs -> blen (enc_payload roots bs) < two63 ->
    blen (compact (section_recs o (hlen roots) bs)) <= max_alloc ->
    idx_new codec = Some i0 ->
    Permutation (idx_getall (idx_load_with srt (section_recs o (hlen roots) bs) i0) code d)
                (spec_lookup o (negb (codec =? codec_sorted)) code d (hlen roots) bs).
Proof. exact gen_getall_exact. Qed.
Print Assumptions C03_lookup_exact.

(* every reported offset is where a section starts, and that section's CID is indexed and carries
   the key (checked against the bytes: [section_at] decodes the payload at the offset) *)
Theorem C03_lookup_sound :
  forall (srt : list irec -> list irec), sort_ok srt ->
  forall o roots bs codec i0 code d off,
    blocks_ok bs -> blen (enc_payload roots bs) < two63 ->
    blen (compact (section_recs o (hlen roots) bs)) <= max_alloc ->
    idx_new codec = Some i0 ->
    In off (idx_getall (idx_load_with srt (section_recs o (hlen roots) bs) i0) code d) ->
    exists c dd, section_at (enc_payload roots bs) off = Some (c, dd) /\
                 section_indexed o c = true /\ key_match (negb (codec =? codec_sorted)) code d c = true.
Proof. exact gen_getall_sound. Qed.
Print Assumptions C03_lookup_sound.

(* not found exactly when no indexed section carries the key (absent CIDs, other hash code under the
   multihash codec, identity CIDs unless StoreIdentityCIDs) *)
Theorem C03_not_found_iff_absent :
  forall (srt : list irec -> list irec), sort_ok srt ->
  forall o roots bs codec i0 code d,
    blocks_ok bs -> blen (enc_payload roots bs) < two63 ->
    blen (compact (section_recs o (hlen roots) bs)) <= max_alloc ->
    idx_new codec = Some i0 ->
    (idx_getall (idx_load_with srt (section_recs o (hlen roots) bs) i0) code d = []
     <-> spec_lookup o (negb (codec =? codec_sorted)) code d (hlen roots) bs = []).
Proof. exact gen_getall_notfound. Qed.
Print Assumptions C03_not_found_iff_absent.

(* the insertion index handed to LoadIndex: digest-only, and in payload order *)
Theorem C03_lookup_exact_insertion_index :
  forall o roots bs code d,
    ii_getall d (ii_load (section_recs o (hlen roots) bs) [])
    = spec_lookup o false code d (hlen roots) bs.
Proof. exact gen_insertion_getall. Qed.
Print Assumptions C03_lookup_exact_insertion_index.

(* every section of the payload decodes at its offset to its own CID and data (so the offsets above
   are offsets into the actual bytes) *)
Theorem C03_sections_decode_at_their_offsets :
  forall roots bs off c d,
    blocks_ok bs -> In (off, (c, d)) (sections_at (hlen roots) bs) ->
    section_at (enc_payload roots bs) off = Some (c, d).
Proof. exact section_at_sections. Qed.
Print Assumptions C03_sections_decode_at_their_offsets.

(* ---- (4) options ----------------------------------------------------------------------------------- *)
(* MaxIndexCidSize: the first indexed CID above the limit stops the load with ErrCidTooLarge (an
   unindexed identity CID of any size does not: it is exempted by [cids_fit]'s premise in (1)) *)
Theorem C03_cid_too_large :
  forall hdrdec k o roots bs1 b bs2,
    header_ok hdrdec o roots -> blocks_ok (bs1 ++ b :: bs2) -> cids_fit o bs1 ->
    section_indexed o (fst b) = true -> g_max_cid o < blen (fst b) ->
    blen (enc_payload roots (bs1 ++ b :: bs2)) < two63 ->
    load_index hdrdec k o (enc_payload roots (bs1 ++ b :: bs2)) = Err ECidTooLarge.
Proof. exact load_index_v1_cid_too_large. Qed.
Print Assumptions C03_cid_too_large.

(* ZeroLengthSectionAsEOF: zero bytes after the sections end the scan (same records) when the option
   is on, and are an error when it is off -- whatever follows the first zero byte *)
Theorem C03_zero_len_eof :
  forall hdrdec k o roots bs n post,
    header_ok hdrdec o roots -> blocks_ok bs -> cids_fit o bs ->
    blen (enc_payload roots bs ++ zeros (S n) ++ post) < two63 ->
    load_index hdrdec k o (enc_payload roots bs ++ zeros (S n) ++ post)
    = if g_zeof o then Ok (section_recs o (hlen roots) bs) else Err EOther.
Proof. exact load_index_v1_padded. Qed.
Print Assumptions C03_zero_len_eof.

(* StoreIdentityCIDs: what "indexed" means in all of the above *)
Theorem C03_identity_indexed_iff_option :
  forall o p, indexed o p = g_store_id o || negb (c_mhcode p =? 0).
Proof. exact (fun o p => eq_refl). Qed.
Print Assumptions C03_identity_indexed_iff_option.

(* ---- the oracle hypotheses hold for the canonical CBOR shape ------------------------------------------ *)
Theorem C03_hypotheses_hold_for_canonical_decoder :
  forall o roots,
    (Forall (fun c => cid_bytes_ok c /\ blen c < two63) roots /\ N.of_nat (length roots) < two64) ->
    blen (enc_header (Some roots) 1) <= g_maxh o -> blen (enc_header (Some roots) 1) < two63 ->
    header_ok dec_header_canon o roots /\ (10 <= g_maxh o -> pragma_ok dec_header_canon o).
Proof. exact (fun o roots Hr H1 H2 => conj (hdr_fits_canon o roots Hr H1 H2) (pragma_good_canon o)). Qed.
Print Assumptions C03_hypotheses_hold_for_canonical_decoder.

(* ---- (5) ReadOrGenerateIndex ------------------------------------------------------------------------
   [read_or_generate_index_with srt hdrdec codec o file]: ReadVersion, then GenerateIndex (CARv1, or
   CARv2 whose header has no index) over the data reader, or index.ReadFrom at IndexOffset. *)

(* CARv1: it is the generated index: the index of exactly the section records *)
Theorem C03_read_or_generate_carv1 :
  forall hdrdec (srt : list irec -> list irec) codec i0 o roots bs,
    idx_new codec = Some i0 ->
    header_ok hdrdec o roots -> blocks_ok bs -> cids_fit o bs ->
    blen (enc_payload roots bs) < two63 ->
    read_or_generate_index_with srt hdrdec codec o (enc_payload roots bs)
    = Ok (idx_load_with srt (section_recs o (hlen roots) bs) i0).
Proof. exact rog_v1. Qed.
Print Assumptions C03_read_or_generate_carv1.

(* CARv2 without an index (IndexOffset = 0), any padding and trailer: the same generated index *)
Theorem C03_read_or_generate_carv2_without_index :
  forall hdrdec (srt : list irec -> list irec) codec i0 o hi lo pad roots bs trailer,
    idx_new codec = Some i0 ->
    pragma_ok hdrdec o -> header_ok hdrdec o roots -> blocks_ok bs -> cids_fit o bs ->
    hi < two64 -> lo < two64 ->
    blen (v2_container hi lo 0 pad (enc_payload roots bs) trailer) < two63 ->
    read_or_generate_index_with srt hdrdec codec o (v2_container hi lo 0 pad (enc_payload roots bs) trailer)
    = Ok (idx_load_with srt (section_recs o (hlen roots) bs) i0).
Proof. exact rog_v2_without_index. Qed.
Print Assumptions C03_read_or_generate_carv2_without_index.

(* CARv2 with an index: exactly index.ReadFrom of the bytes at IndexOffset, for ANY payload bytes and
   trailer (nothing is scanned, the codec option is ignored) *)
Theorem C03_read_or_generate_reads_the_index_section :
  forall hdrdec (srt : list irec -> list irec) codec o hi lo ioff pad payload trailer,
    pragma_ok hdrdec o -> hi < two64 -> lo < two64 -> 0 < ioff < two63 -> 0 < blen payload ->
    blen (v2_container hi lo ioff pad payload trailer) < two63 ->
    read_or_generate_index_with srt hdrdec codec o (v2_container hi lo ioff pad payload trailer)
    = match idx_read (drop ioff (v2_container hi lo ioff pad payload trailer)) with
      | Ok (i, _) => Ok i
      | Err e => Err e
      end.
Proof. exact rog_v2_reads_index. Qed.
Print Assumptions C03_read_or_generate_reads_the_index_section.

(* ... so an index written anywhere after the payload (index padding [gap]) comes back unchanged *)
Theorem C03_read_or_generate_returns_the_written_index :
  forall hdrdec (srt : list irec -> list irec) codec o hi lo pad payload gap i rest,
    pragma_ok hdrdec o -> hi < two64 -> lo < two64 -> 0 < blen payload -> idx_wf i ->
    blen (v2_container hi lo (51 + blen pad + blen payload + blen gap) pad payload (gap ++ idx_write i ++ rest)) < two63 ->
    read_or_generate_index_with srt hdrdec codec o
      (v2_container hi lo (51 + blen pad + blen payload + blen gap) pad payload (gap ++ idx_write i ++ rest))
    = Ok i.
Proof. exact rog_v2_with_written_index. Qed.
Print Assumptions C03_read_or_generate_returns_the_written_index.

(* soundness and completeness lifted.  [answers_exactly o codec roots bs i] (proofs/IndexGenRog.v) is
   the conjunction of C03_lookup_exact and C03_lookup_sound for the index value i: for every key,
   GetAll = spec_lookup as a multiset, and every reported offset decodes to an indexed section
   carrying the key.
   (i) generating branches: CARv1 and index-less CARv2 give one and the same index, which answers
   exactly *)
Theorem C03_read_or_generate_generated_answers_exactly :
  forall hdrdec (srt : list irec -> list irec), sort_ok srt ->
  forall codec i0 o hi lo pad roots bs trailer,
    idx_new codec = Some i0 ->
    pragma_ok hdrdec o -> header_ok hdrdec o roots -> blocks_ok bs -> cids_fit o bs ->
    hi < two64 -> lo < two64 ->
    blen (v2_container hi lo 0 pad (enc_payload roots bs) trailer) < two63 ->
    blen (compact (section_recs o (hlen roots) bs)) <= max_alloc ->
    exists i,
      read_or_generate_index_with srt hdrdec codec o (enc_payload roots bs) = Ok i /\
      read_or_generate_index_with srt hdrdec codec o (v2_container hi lo 0 pad (enc_payload roots bs) trailer) = Ok i /\
      answers_exactly o codec roots bs i.
Proof. exact rog_generated_answers_exactly. Qed.
Print Assumptions C03_read_or_generate_generated_answers_exactly.

(* (ii) reading branch: when the file carries its payload's own index (what GenerateIndex / Finalize
   wrote for these sections under codec', with any sort.Sort behaviour srt'), the result answers
   exactly -- under codec', whatever codec the caller asked for *)
Theorem C03_read_or_generate_own_index_answers_exactly :
  forall hdrdec (srt srt' : list irec -> list irec) codec codec' i0' o hi lo pad roots bs gap rest,
    sort_ok srt' -> idx_new codec' = Some i0' ->
    pragma_ok hdrdec o -> hi < two64 -> lo < two64 ->
    blocks_ok bs -> blen (enc_payload roots bs) < two63 ->
    (blen (compact (section_recs o (hlen roots) bs)) <= max_alloc /\
     (codec' = codec_mh_sorted ->
      N.of_nat (length (group_by r_code (section_recs o (hlen roots) bs))) < two31)) ->
    blen (v2_container hi lo (51 + blen pad + blen (enc_payload roots bs) + blen gap) pad (enc_payload roots bs)
            (gap ++ idx_write (idx_load_with srt' (section_recs o (hlen roots) bs) i0') ++ rest)) < two63 ->
    exists i,
      read_or_generate_index_with srt hdrdec codec o
        (v2_container hi lo (51 + blen pad + blen (enc_payload roots bs) + blen gap) pad (enc_payload roots bs)
           (gap ++ idx_write (idx_load_with srt' (section_recs o (hlen roots) bs) i0') ++ rest)) = Ok i /\
      answers_exactly o codec' roots bs i.
Proof. exact rog_own_index_answers_exactly. Qed.
Print Assumptions C03_read_or_generate_own_index_answers_exactly.

(* ---- (6) any header; the nil-roots header ---------------------------------------------------------------
   (1) generalised: the header may be ANY byte string the decoder accepts as a version-1 header (with
   whatever roots) -- e.g. a non-canonical encoding -- not only [enc_header (Some roots) 1] *)
Theorem C03_records_exact_carv1_any_header :
  forall hdrdec k o hb r bs,
    hdrdec hb = Some (r, 1) -> blen hb <= g_maxh o -> blen hb < two63 ->
    blocks_ok bs -> cids_fit o bs ->
    blen (ld hb ++ enc_sections bs) < two63 ->
    load_index hdrdec k o (ld hb ++ enc_sections bs) = Ok (section_recs o (ld_size (blen hb)) bs).
Proof. exact load_index_v1_any_header. Qed.
Print Assumptions C03_records_exact_carv1_any_header.

(* the header go-car writes for a nil root slice (a2 "roots" f6 "version" 01), canonical decoder:
   no oracle hypothesis left *)
Theorem C03_records_exact_carv1_nil_roots :
  forall k o bs,
    blen (enc_header None 1) <= g_maxh o -> blocks_ok bs -> cids_fit o bs ->
    blen (ld (enc_header None 1) ++ enc_sections bs) < two63 ->
    load_index dec_header_canon k o (ld (enc_header None 1) ++ enc_sections bs) = Ok (section_recs o 18 bs).
Proof. exact load_index_v1_nil_roots. Qed.
Print Assumptions C03_records_exact_carv1_nil_roots.

(* ---- (7) the code AS FOUND: where it did satisfy the property (the _partial statements that go with
   the two refutations above).  Guard (executable): the source is seekable, and -- for CARv2 -- the
   payload has at least one section or nothing follows it. *)
Theorem C03_records_exact_carv1_partial_as_found :
  forall hdrdec o roots bs,
    header_ok hdrdec o roots -> blocks_ok bs -> cids_fit o bs ->
    blen (enc_payload roots bs) < two63 ->
    load_index_gen hdrdec as_found SrcSeek o (enc_payload roots bs) = Ok (section_recs o (hlen roots) bs).
Proof. exact load_index_as_found_seek_v1. Qed.
Print Assumptions C03_records_exact_carv1_partial_as_found.

Theorem C03_records_exact_carv2_partial_as_found :
  forall hdrdec o hi lo ioff pad roots bs trailer,
    (bs <> [] \/ trailer = []) ->
    pragma_ok hdrdec o -> header_ok hdrdec o roots -> blocks_ok bs -> cids_fit o bs ->
    hi < two64 -> lo < two64 -> ioff < two63 ->
    blen (v2_container hi lo ioff pad (enc_payload roots bs) trailer) < two63 ->
    load_index_gen hdrdec as_found SrcSeek o (v2_container hi lo ioff pad (enc_payload roots bs) trailer)
    = Ok (section_recs o (hlen roots) bs).
Proof. exact load_index_as_found_seek_v2. Qed.
Print Assumptions C03_records_exact_carv2_partial_as_found.

(* ---- (8) GenerateIndexFromFile ---------------------------------------------------------------------------- *)
From GoCarProofs Require Import IndexGetFirst.

(* it is GenerateIndex over the opened file (a seekable source); a path that cannot be opened is an error *)
Theorem C03_generate_index_from_file_is_generate_index :
  forall (srt : list irec -> list irec) hdrdec codec o all,
    generate_index_from_file_with srt hdrdec codec o (Some all) = generate_index_with srt hdrdec codec SrcSeek o all
    /\ generate_index_from_file_with srt hdrdec codec o None = Err EOther.
Proof. exact generate_index_from_file_is_generate_index. Qed.
Print Assumptions C03_generate_index_from_file_is_generate_index.

(* hence, for a CARv1 file and for a CARv2 file with any padding and trailer: the index of exactly the
   section records (to which C03_lookup_exact / _sound / _not_found_iff_absent apply) *)
Theorem C03_generate_index_from_file_valid :
  forall (srt : list irec -> list irec) hdrdec codec i0 o hi lo ioff pad roots bs trailer,
    idx_new codec = Some i0 ->
    pragma_ok hdrdec o -> header_ok hdrdec o roots -> blocks_ok bs -> cids_fit o bs ->
    hi < two64 -> lo < two64 -> ioff < two63 ->
    blen (v2_container hi lo ioff pad (enc_payload roots bs) trailer) < two63 ->
    generate_index_from_file_with srt hdrdec codec o (Some (enc_payload roots bs))
    = Ok (idx_load_with srt (section_recs o (hlen roots) bs) i0) /\
    generate_index_from_file_with srt hdrdec codec o (Some (v2_container hi lo ioff pad (enc_payload roots bs) trailer))
    = Ok (idx_load_with srt (section_recs o (hlen roots) bs) i0).
Proof. exact generate_index_from_file_valid. Qed.
Print Assumptions C03_generate_index_from_file_valid.

(* ---- (9) ApplyOptions: the option plumbing shared by every entry point ---------------------------------------
   [apply_options l] (theories/Options.v): options applied in order, then zero IndexCodec /
   MaxIndexCidSize replaced by their defaults and MaxIndexCidSize capped at an index record's capacity. *)
From GoCar Require Import Options.
From GoCarProofs Require Import OptionsFacts.

(* zero => default: whatever the list, the resolved IndexCodec is never 0 and MaxIndexCidSize is in
   (0, 32 MiB - 8]; an explicit zero gives exactly the default.  (A zero MaxAllowedHeaderSize /
   MaxAllowedSectionSize is NOT replaced: it stays 0.) *)
Theorem C03_apply_options_zero_means_default :
  forall l,
    op_index_codec (apply_options l) <> 0 /\
    0 < op_max_index_cid (apply_options l) <= opt_max_indexable_cid /\
    op_index_codec (apply_options (l ++ [OUseIndexCodec 0])) = opt_default_codec /\
    op_max_index_cid (apply_options (l ++ [OMaxIndexCidSize 0])) = opt_default_max_cid /\
    op_max_header (apply_options (l ++ [OMaxAllowedHeaderSize 0])) = 0 /\
    op_max_section (apply_options (l ++ [OMaxAllowedSectionSize 0])) = 0.
Proof. exact apply_options_zero_means_default. Qed.
Print Assumptions C03_apply_options_zero_means_default.

(* a later option for the same field wins; options for distinct fields commute *)
Theorem C03_apply_options_later_wins :
  forall l1 a b l2, opt_field a = opt_field b ->
    apply_options (l1 ++ a :: b :: l2) = apply_options (l1 ++ b :: l2).
Proof. exact apply_options_later_wins. Qed.
Print Assumptions C03_apply_options_later_wins.

Theorem C03_apply_options_order_insensitive_for_distinct_fields :
  forall l1 a b l2, opt_field a <> opt_field b ->
    apply_options (l1 ++ a :: b :: l2) = apply_options (l1 ++ b :: a :: l2).
Proof. exact apply_options_distinct_fields_commute. Qed.
Print Assumptions C03_apply_options_order_insensitive_for_distinct_fields.

(* idempotent: passing the same options a second time changes nothing, and resolving is a projection *)
Theorem C03_apply_options_idempotent :
  forall l, apply_options (l ++ l) = apply_options l.
Proof. exact apply_options_idempotent. Qed.
Print Assumptions C03_apply_options_idempotent.

Theorem C03_apply_options_finalize_idempotent :
  forall r, options_finalize (options_finalize r) = options_finalize r.
Proof. exact options_finalize_idempotent. Qed.
Print Assumptions C03_apply_options_finalize_idempotent.
