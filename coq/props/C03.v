(* C03 -- index soundness and completeness for every payload, codec and reader kind.
   (provisional: refutations of the code as found; the full theorems follow) *)
From GoCar Require Import Bytes Varint Cid Header Frame V2Header Scan Index IndexGen.
From GoCarProofs Require Import IndexGenExamples.

Theorem C03_source_independent_refuted_as_found :
  exists o file recs recs',
    load_index_gen dec_header_canon as_found SrcSeek o file = Ok recs /\
    load_index_gen dec_header_canon as_found SrcPlain o file = Ok recs' /\
    map r_off recs = [18; 38; 47] /\ map r_off recs' = [0; 20; 29].
Proof. exact source_dependent_as_found. Qed.
Print Assumptions C03_source_independent_refuted_as_found.
