(* C13 -- inspection reports exactly what a full scan finds.
   Only statements closed by [exact]; proofs live in proofs/Inspect*.v.

   [new_reader hdrdec o file] is v2.NewReader over the bytes [file]; [inspect hok hdrdec o rd file
   true] is Reader.Inspect(true) on the reader it returned; [br_read_all hok hdrdec o' file] is
   NewBlockReader(file) followed by Next until it fails, reported as (version, roots, blocks,
   terminating error) -- EEof is the clean end; [index_codec rd file] is what Inspect reads as
   the index codec (Ok 0 when the header claims no index); [stats_of] computes the statistics
   from the scan's block list (count, min/avg/max with integer division and zeros for an empty
   list, per-codec and per-hash counts in ascending key order, roots-present = every root, with
   its duplicates, is the CID of some block).
   The model is the code as repaired by notes/fixes/C13-*.patch (see Inspect.v, "FIX"). *)
From GoCar Require Import Bytes Varint Cid Header Frame V2Header Scan C02Extra CliCmds Inspect.
From GoCarProofs Require Import CidFacts ScanFacts ScanSound ScanTrunc InspectFacts InspectC13 InspectQuick InspectCli InspectHistory InspectFull InspectViews.

(* For every hash oracle, header decoder, option set (ZeroLengthSectionAsEOF, header limit,
   section limit up to go-cid's 32 MiB stream-parser cap) and EVERY byte string NewReader
   accepts: Inspect(true) succeeds with statistics [st] iff the hash-verifying BlockReader scan
   of the same bytes ends cleanly, the index codec (when an index is claimed) is readable, and
   [st] is exactly the statistics of the scanned blocks. *)
Theorem C13_inspect_iff_scan :
  forall hok hdrdec o file rd,
    o_maxs o <= max_digest_alloc ->
    new_reader hdrdec o file = Ok rd ->
    forall st,
      inspect hok hdrdec o rd file true = Ok st <->
      exists roots blocks codec,
        br_read_all hok hdrdec (mkropts (o_zeof o) (o_maxh o) (o_maxs o) false) file
        = Ok (r_version rd, roots, mkscan blocks EEof) /\
        index_codec rd file = Ok codec /\
        st = stats_of (r_version rd) (r_hdr rd) roots blocks codec.
Proof. exact c13_iff. Qed.
Print Assumptions C13_inspect_iff_scan.

(* Inspect's section loop always terminates within the fuel the model gives it (one unit per
   byte of payload): the out-of-fuel outcome is unreachable, for every input and both modes. *)
Theorem C13_inspect_terminates :
  forall hok hdrdec o rd file validate,
    inspect hok hdrdec o rd file validate <> Err EFuel.
Proof. exact inspect_never_out_of_fuel. Qed.
Print Assumptions C13_inspect_terminates.

(* When Inspect fails with io.EOF (which a caller may read as "clean end"), the io.EOF never
   comes from the section walk: either the data payload is empty where its header should be
   (NewBlockReader's constructor reports the same io.EOF) or index.ReadCodec found nothing at
   IndexOffset.  A truncated section is never reported this way. *)
Theorem C13_inspect_eof_error_never_from_a_section :
  forall hok hdrdec o rd file validate,
    inspect hok hdrdec o rd file validate = Err EEof ->
    read_header hdrdec (o_maxh o) (data_window rd file) = Err EEof \/ index_codec rd file = Err EEof.
Proof. exact inspect_eof_origin. Qed.
Print Assumptions C13_inspect_eof_error_never_from_a_section.

(* ---- round 3: Inspect(false) -------------------------------------------------------------- *)
(* C13's statement is about full-validation inspection; Inspect(false) is documented to skip the
   block data.  What it accepts, exactly: for every byte string NewReader accepts (section limit
   within 32 MiB), Inspect(false) = Ok st iff the index codec is readable and the NON-verifying
   BlockReader scan (TrustedCAR) of the same bytes either
     (a) ends cleanly, and st = the statistics of the scanned blocks, or
     (b) stops with ErrUnexpectedEOF at a final section whose CID is complete but whose data is cut
         short ([cut_last] of the unread rest), and st counts that section with its promised length
         on top of the scanned blocks.
   Shape (b) is the truncated last block Inspect(false) lets through (dr.Seek past the end, then a
   clean EOF); InspectExamples.c13_quick_accepts_a_cut_last_block is a witness.  Nothing else
   separates Inspect(false) from the scan. *)
Theorem C13_inspect_without_validation_characterised :
  forall hok hdrdec o file rd,
    o_maxs o <= max_digest_alloc ->
    new_reader hdrdec o file = Ok rd ->
    forall st,
      inspect hok hdrdec o rd file false = Ok st <->
      exists roots blocks e codec,
        br_read_all hok hdrdec (mkropts (o_zeof o) (o_maxh o) (o_maxs o) true) file
        = Ok (r_version rd, roots, mkscan blocks e) /\
        index_codec rd file = Ok codec /\
        ((e = EEof /\ st = stats_of (r_version rd) (r_hdr rd) roots blocks codec) \/
         (e = EUnexpectedEof /\
          exists c p cn bl,
            cut_last o (br_read_tail hok hdrdec (mkropts (o_zeof o) (o_maxh o) (o_maxs o) true) file)
            = Some (c, p, cn, bl) /\
            st = finish_stats rd roots
                   (iacc_step roots c p cn bl (fold_left (blk_step roots) blocks (iacc0 roots))) codec)).
Proof. exact c13_quick. Qed.
Print Assumptions C13_inspect_without_validation_characterised.

(* ---- round 3: the CLI path (cmd/car/lib/inspect.go) ---------------------------------------- *)
(* [inspect_car] is the model of lib.InspectCar that C19's check ties to the `car inspect` binary
   (CliCmds.v); [cli_opts] are the options it fixes (ZeroLengthSectionAsEOF(true), default
   limits); [stats_of_istats] reads its per-section record as a Stats value.  lib.InspectCar is
   exactly NewReader + Inspect with those options; the only thing it adds is the CARv1 --full
   check that nothing follows the point where Inspect stopped. *)
Theorem C13_cli_inspect_is_inspect_with_the_cli_options :
  forall hok hdrdec full file,
    match inspect_car hok hdrdec full file with
    | Ok ist => inspect_file hok hdrdec cli_opts file full = Ok (stats_of_istats ist)
    | Err e =>
        inspect_file hok hdrdec cli_opts file full = Err e \/
        (e = EOther /\ full = true /\
         exists ist, inspect_file hok hdrdec cli_opts file full = Ok (stats_of_istats ist) /\
                     is_ver ist = 1 /\ is_end ist < blen file)
    end.
Proof. exact cli_inspect_car. Qed.
Print Assumptions C13_cli_inspect_is_inspect_with_the_cli_options.

(* hence: whenever `car inspect --full` succeeds, the hash-verifying BlockReader scan of the same
   file (same options) ends cleanly, the claimed index codec is readable, and the report is the
   statistics of the scanned blocks *)
Theorem C13_cli_inspect_full_reports_what_the_scan_finds :
  forall hok hdrdec file ist,
    inspect_car hok hdrdec true file = Ok ist ->
    exists rd roots blocks codec,
      new_reader hdrdec cli_opts file = Ok rd /\
      br_read_all hok hdrdec cli_opts file = Ok (r_version rd, roots, mkscan blocks EEof) /\
      index_codec rd file = Ok codec /\
      stats_of_istats ist = stats_of (r_version rd) (r_hdr rd) roots blocks codec.
Proof. exact cli_inspect_full_agrees_with_scan. Qed.
Print Assumptions C13_cli_inspect_full_reports_what_the_scan_finds.

(* ---- round 3b: a history of calls on one Reader --------------------------------------------- *)
(* [rrun] drives one Reader through a list of calls (Roots, DataReader, IndexReader, Inspect b);
   the Reader's only mutable state is the roots cache filled by Roots().  Every call of every
   history returns exactly what the same call returns on a fresh Reader, and Inspect after any
   history is [inspect] of the bytes and the options: the Reader has no state that matters. *)
Theorem C13_reader_calls_do_not_depend_on_history :
  forall hok hdrdec o file rd ops validate,
    fst (rstep hok hdrdec o file (snd (rrun hok hdrdec o file (fresh_reader rd) ops)) (OInspect validate))
    = RInspect (inspect hok hdrdec o rd file validate) /\
    fst (rrun hok hdrdec o file (fresh_reader rd) ops)
    = map (fun op => fst (rstep hok hdrdec o file (fresh_reader rd) op)) ops.
Proof. exact inspect_after_history. Qed.
Print Assumptions C13_reader_calls_do_not_depend_on_history.

(* ---- extension round: what full validation adds ------------------------------------------------ *)
(* Inspect(true) = Inspect(false) + every block's hash verified.  For every byte string NewReader
   accepts (section limit within 32 MiB): Inspect(true) = Ok st iff Inspect(false) = Ok st AND the
   non-verifying (TrustedCAR) BlockReader scan of the same bytes ends cleanly with blocks that are all
   intact in C02's sense (the CID parses at the front of the section and the data hashes to it under
   the CID's own hash function, per the hash oracle). *)
Theorem C13_full_validation_is_quick_inspection_plus_every_hash :
  forall hok hdrdec o file rd,
    o_maxs o <= max_digest_alloc ->
    new_reader hdrdec o file = Ok rd ->
    forall st,
      inspect hok hdrdec o rd file true = Ok st <->
      (inspect hok hdrdec o rd file false = Ok st /\
       exists roots blocks,
         br_read_all hok hdrdec (mkropts (o_zeof o) (o_maxh o) (o_maxs o) true) file
         = Ok (r_version rd, roots, mkscan blocks EEof) /\
         Forall (intact hok) blocks).
Proof. exact c13_full_is_quick_plus_hashes. Qed.
Print Assumptions C13_full_validation_is_quick_inspection_plus_every_hash.

(* A single corrupted payload byte is reported.  Take a valid archive, replace ONE byte x of some
   block's data by x' <> x (everything else, lengths included, untouched; [rest] is whatever follows).
   If the hash oracle does not collide on same-length data, Inspect(true) fails, and not with io.EOF. *)
Theorem C13_full_validation_reports_a_corrupted_data_byte :
  forall hok hdrdec o roots pre c d1 x x' d2 rest,
    o_maxs o <= max_digest_alloc ->
    hdr_good hdrdec roots -> blen (enc_header (Some roots) 1) <= o_maxh o ->
    blen (enc_header (Some roots) 1) < two63 ->
    Forall (block_ok (o_maxs o)) pre -> Forall (hash_good hok) pre ->
    block_ok (o_maxs o) (c, d1 ++ x :: d2) -> hash_good hok (c, d1 ++ x :: d2) ->
    (forall c d d', hok c d = Some true -> d' <> d -> blen d' = blen d -> hok c d' = Some false) ->
    x' <> x ->
    exists e, e <> EEof /\
      inspect_file hok hdrdec o
        (ld (enc_header (Some roots) 1) ++ enc_sections pre ++ enc_section c (d1 ++ x' :: d2) ++ rest) true
      = Err e.
Proof. exact inspect_reports_a_flipped_data_byte. Qed.
Print Assumptions C13_full_validation_reports_a_corrupted_data_byte.

(* ... and so is a corrupted byte of the digest inside the block's CID, if the oracle binds digests
   (a CID that differs from a matching one only in its digest does not match the same data). *)
Theorem C13_full_validation_reports_a_corrupted_digest_byte :
  forall hok hdrdec o roots pre p g1 x x' g2 d rest,
    o_maxs o <= max_digest_alloc ->
    hdr_good hdrdec roots -> blen (enc_header (Some roots) 1) <= o_maxh o ->
    blen (enc_header (Some roots) 1) < two63 ->
    Forall (block_ok (o_maxs o)) pre -> Forall (hash_good hok) pre ->
    c_digest p = g1 ++ x :: g2 -> cid_ok p ->
    block_ok (o_maxs o) (cid_enc p, d) -> hash_good hok (cid_enc p, d) ->
    (forall q g' dd, cid_ok q -> hok (cid_enc q) dd = Some true -> g' <> c_digest q ->
                     blen g' = blen (c_digest q) ->
                     hok (cid_enc (mkcid (c_ver q) (c_codec q) (c_mhcode q) g')) dd = Some false) ->
    x' <> x ->
    let p' := mkcid (c_ver p) (c_codec p) (c_mhcode p) (g1 ++ x' :: g2) in
    exists e, e <> EEof /\
      inspect_file hok hdrdec o
        (ld (enc_header (Some roots) 1) ++ enc_sections pre ++ enc_section (cid_enc p') d ++ rest) true
      = Err e.
Proof. exact inspect_reports_a_flipped_digest_byte. Qed.
Print Assumptions C13_full_validation_reports_a_corrupted_digest_byte.

(* ---- round 6: views handed out by a Reader are positioned views ------------------------------------ *)
(* DataReader of a CARv1 and IndexReader are internal io.offsetReadSeeker values (model: C02Extra.ors,
   tied to the code by kind c02ors).  NewOffsetReadSeeker over such a value ([ors_nested]) starts at the
   parent's base + off whatever was done to the parent as a stream before ([ors_run] of any operations),
   and delivers the underlying bytes from there -- so a Reader opened on a consumed DataReader /
   IndexReader value sees what a Reader on a fresh view sees (the driver checks exactly that: clause
   reused-view-differs-from-fresh-view). *)
Theorem C13_nested_view_does_not_depend_on_the_parents_cursor :
  forall data parent ops off n k,
    ors_nested (ors_run data parent ops) off = ors_nested parent off /\
    fst (fst (ors_step data (ors_nested parent off) (OrRead n))) = take n (drop (or_base parent + off) data) /\
    fst (fst (ors_step data (ors_nested parent off) (OrReadAt n k)))
    = take n (drop (k + (or_base parent + off)) data).
Proof. exact ors_nested_view. Qed.
Print Assumptions C13_nested_view_does_not_depend_on_the_parents_cursor.
