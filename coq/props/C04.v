(* C04 -- writable stores behave as an append-only content-addressed map.
   Only statements closed by [exact]; proofs are in proofs/StoreInv.v, StoreSpecFacts.v, StoreSpecCor.v,
   non-vacuity Examples in proofs/StoreSpecExamples.v.

   Layer A: Store.v (blockstore.ReadWrite, storage.StorageCar, internal/store) dispatched by
   StoreSpec.impl_step for the front-ends FBs (OpenReadWrite: the blockstore owns the file), FBf
   (OpenReadWriteFile: the caller's file stays open; Roots ignores the closed flag), FSt (StorageCar); layer B: the reference map StoreSpec.spec_step.  [trace step s ops] is the
   list of (state, result) pairs a history produces, [outs] its results.

   Hypotheses, written out:
   - no 64-bit wrap-around of the CARv2 header arithmetic (paddings + everything the history writes
     stay below 2^64);
   - the header decoder (an oracle: go-ipld-cbor) inverts the header encoder on the roots the store was
     opened with, and the header fits MaxAllowedHeaderSize;
   - every block a history puts whose CID parses at all is a well-formed CID (one go-cid encodes, digest
     within CidFromReader's 32 MiB cap) and its section fits MaxAllowedSectionSize: the writers do
     not check that limit, the readers do;
   - no write faults (the fault script given to open_new is empty; faults are C16). *)
From GoCar Require Import Bytes Varint Cid Header Frame V2Header Index Store StoreSpec.
From GoCarProofs Require Import CidFacts StoreInv StoreSpecFacts StoreSpecCor.

(* for ALL option rows, front-ends, root lists and operation histories: every result equals the map's *)
Theorem C04_refines_map :
  forall (hdrdec : bytes -> option (list bytes * N)) (k : skind) (o : wopts) (nilroots : bool)
         (roots : list bytes),
    51 + w_dpad o + w_ipad o < two64 ->
    hdrdec (enc_header (roots_opt nilroots roots) 1) = Some (roots, 1) ->
    blen (enc_header (roots_opt nilroots roots) 1) <= w_maxh o ->
    blen (enc_header (roots_opt nilroots roots) 1) < two63 ->
    forall s0 : wstate, open_new k o nilroots roots [] = Ok s0 ->
    forall (f : front) (ops : list sop),
    (Forall (fun op =>
       match op with
       | OpPut c d =>
           cid_parse (fst (c, d)) <> None ->
           (exists p, cid_ok p /\ fst (c, d) = cid_enc p /\ blen (c_digest p) <= max_digest_alloc) /\
           blen (fst (c, d)) + blen (snd (c, d)) <= w_maxs o /\ blen (fst (c, d)) + blen (snd (c, d)) < two63
       | OpPutMany l =>
           Forall (fun b =>
             cid_parse (fst b) <> None ->
             (exists p, cid_ok p /\ fst b = cid_enc p /\ blen (c_digest p) <= max_digest_alloc) /\
             blen (fst b) + blen (snd b) <= w_maxs o /\ blen (fst b) + blen (snd b) < two63) l
       | _ => True
       end) ops /\
     51 + w_dpad o + w_ipad o + ld_size (blen (enc_header (roots_opt nilroots roots) 1)) + ops_size ops < two64) ->
    outs (trace (impl_step hdrdec f) s0 ops) = outs (trace (spec_step f o roots) m_empty ops).
Proof. exact refines_map. Qed.
Print Assumptions C04_refines_map.

(* the same, with the history lifted by fold_left *)
Theorem C04_refines_map_fold :
  forall (hdrdec : bytes -> option (list bytes * N)) (k : skind) (o : wopts) (nilroots : bool)
         (roots : list bytes),
    51 + w_dpad o + w_ipad o < two64 ->
    hdrdec (enc_header (roots_opt nilroots roots) 1) = Some (roots, 1) ->
    blen (enc_header (roots_opt nilroots roots) 1) <= w_maxh o ->
    blen (enc_header (roots_opt nilroots roots) 1) < two63 ->
    forall s0 : wstate, open_new k o nilroots roots [] = Ok s0 ->
    forall (f : front) (ops : list sop),
    (Forall (fun op =>
       match op with
       | OpPut c d =>
           cid_parse (fst (c, d)) <> None ->
           (exists p, cid_ok p /\ fst (c, d) = cid_enc p /\ blen (c_digest p) <= max_digest_alloc) /\
           blen (fst (c, d)) + blen (snd (c, d)) <= w_maxs o /\ blen (fst (c, d)) + blen (snd (c, d)) < two63
       | OpPutMany l =>
           Forall (fun b =>
             cid_parse (fst b) <> None ->
             (exists p, cid_ok p /\ fst b = cid_enc p /\ blen (c_digest p) <= max_digest_alloc) /\
             blen (fst b) + blen (snd b) <= w_maxs o /\ blen (fst b) + blen (snd b) < two63) l
       | _ => True
       end) ops /\
     51 + w_dpad o + w_ipad o + ld_size (blen (enc_header (roots_opt nilroots roots) 1)) + ops_size ops < two64) ->
    snd (fold_left (fun acc op => let '(s', r) := impl_step hdrdec f (fst acc) op in (s', snd acc ++ [r])) ops (s0, []))
    = snd (fold_left (fun acc op => let '(m', r) := spec_step f o roots (fst acc) op in (m', snd acc ++ [r])) ops (m_empty, [])).
Proof. exact refines_map_fold. Qed.
Print Assumptions C04_refines_map_fold.

(* the states correspond through the abstraction function (the blocks a plain sequential decoder finds
   in the payload window of the file, plus the two flags) *)
Theorem C04_abstraction_commutes :
  forall (hdrdec : bytes -> option (list bytes * N)) (k : skind) (o : wopts) (nilroots : bool)
         (roots : list bytes),
    51 + w_dpad o + w_ipad o < two64 ->
    hdrdec (enc_header (roots_opt nilroots roots) 1) = Some (roots, 1) ->
    blen (enc_header (roots_opt nilroots roots) 1) <= w_maxh o ->
    blen (enc_header (roots_opt nilroots roots) 1) < two63 ->
    forall s0 : wstate, open_new k o nilroots roots [] = Ok s0 ->
    forall (f : front) (ops : list sop),
    (Forall (fun op =>
       match op with
       | OpPut c d =>
           cid_parse (fst (c, d)) <> None ->
           (exists p, cid_ok p /\ fst (c, d) = cid_enc p /\ blen (c_digest p) <= max_digest_alloc) /\
           blen (fst (c, d)) + blen (snd (c, d)) <= w_maxs o /\ blen (fst (c, d)) + blen (snd (c, d)) < two63
       | OpPutMany l =>
           Forall (fun b =>
             cid_parse (fst b) <> None ->
             (exists p, cid_ok p /\ fst b = cid_enc p /\ blen (c_digest p) <= max_digest_alloc) /\
             blen (fst b) + blen (snd b) <= w_maxs o /\ blen (fst b) + blen (snd b) < two63) l
       | _ => True
       end) ops /\
     51 + w_dpad o + w_ipad o + ld_size (blen (enc_header (roots_opt nilroots roots) 1)) + ops_size ops < two64) ->
    map abs (map fst (trace (impl_step hdrdec f) s0 ops)) = map fst (trace (spec_step f o roots) m_empty ops).
Proof. exact refines_map_states. Qed.
Print Assumptions C04_abstraction_commutes.

(* the header oracle hypothesis is satisfied by the canonical decoder the check runs with *)
Theorem C04_canonical_decoder_qualifies :
  forall (nilroots : bool) (roots : list bytes),
    Forall (fun c => cid_bytes_ok c /\ blen c < two63) roots /\ N.of_nat (length roots) < two64 ->
    dec_header_canon (enc_header (roots_opt nilroots roots) 1) = Some (roots, 1).
Proof. exact hdr_canon_ok. Qed.
Print Assumptions C04_canonical_decoder_qualifies.

(* a successful Put makes the block retrievable with its exact bytes (content addressing: whatever
   was put before under the same key carries the same bytes; an identity CID carries its data) *)
Theorem C04_put_then_get :
  forall (hdrdec : bytes -> option (list bytes * N)) (k : skind) (o : wopts) (nilroots : bool)
         (roots : list bytes),
    51 + w_dpad o + w_ipad o < two64 ->
    hdrdec (enc_header (roots_opt nilroots roots) 1) = Some (roots, 1) ->
    blen (enc_header (roots_opt nilroots roots) 1) <= w_maxh o ->
    blen (enc_header (roots_opt nilroots roots) 1) < two63 ->
    forall s0 : wstate, open_new k o nilroots roots [] = Ok s0 ->
    forall (f : front) (ops : list sop) (c d : bytes) (p : cidp),
    f = FBs \/ f = FSt true \/ f = FBf -> cid_parse c = Some p ->
    (Forall (fun op =>
       match op with
       | OpPut c d =>
           cid_parse (fst (c, d)) <> None ->
           (exists p, cid_ok p /\ fst (c, d) = cid_enc p /\ blen (c_digest p) <= max_digest_alloc) /\
           blen (fst (c, d)) + blen (snd (c, d)) <= w_maxs o /\ blen (fst (c, d)) + blen (snd (c, d)) < two63
       | OpPutMany l =>
           Forall (fun b =>
             cid_parse (fst b) <> None ->
             (exists p, cid_ok p /\ fst b = cid_enc p /\ blen (c_digest p) <= max_digest_alloc) /\
             blen (fst b) + blen (snd b) <= w_maxs o /\ blen (fst b) + blen (snd b) < two63) l
       | _ => True
       end) (ops ++ [OpPut c d]) /\
     51 + w_dpad o + w_ipad o + ld_size (blen (enc_header (roots_opt nilroots roots) 1)) + ops_size (ops ++ [OpPut c d]) < two64) ->
    (is_identity p = true -> d = c_digest p) ->
    (forall b, In b (puts_of ops) -> same_key (w_whole o) (fst b) c = true -> snd b = d) ->
    forall s1,
      impl_step hdrdec f (last (map fst (trace (impl_step hdrdec f) s0 ops)) s0) (OpPut c d) = (s1, ONil) ->
      snd (impl_step hdrdec f s1 (OpGet c)) = OBytes d.
Proof. exact put_then_get. Qed.
Print Assumptions C04_put_then_get.

(* a Put that answers nil either appended the block, or left the stored blocks as they were because
   the CID is an identity CID that is not stored (IdStore rule) or its key is already present *)
Theorem C04_skip_only_if_present :
  forall (hdrdec : bytes -> option (list bytes * N)) (k : skind) (o : wopts) (nilroots : bool)
         (roots : list bytes),
    51 + w_dpad o + w_ipad o < two64 ->
    hdrdec (enc_header (roots_opt nilroots roots) 1) = Some (roots, 1) ->
    blen (enc_header (roots_opt nilroots roots) 1) <= w_maxh o ->
    blen (enc_header (roots_opt nilroots roots) 1) < two63 ->
    forall s0 : wstate, open_new k o nilroots roots [] = Ok s0 ->
    forall (f : front) (ops : list sop) (c d : bytes) (p : cidp),
    cid_parse c = Some p ->
    (Forall (fun op =>
       match op with
       | OpPut c d =>
           cid_parse (fst (c, d)) <> None ->
           (exists p, cid_ok p /\ fst (c, d) = cid_enc p /\ blen (c_digest p) <= max_digest_alloc) /\
           blen (fst (c, d)) + blen (snd (c, d)) <= w_maxs o /\ blen (fst (c, d)) + blen (snd (c, d)) < two63
       | OpPutMany l =>
           Forall (fun b =>
             cid_parse (fst b) <> None ->
             (exists p, cid_ok p /\ fst b = cid_enc p /\ blen (c_digest p) <= max_digest_alloc) /\
             blen (fst b) + blen (snd b) <= w_maxs o /\ blen (fst b) + blen (snd b) < two63) l
       | _ => True
       end) (ops ++ [OpPut c d]) /\
     51 + w_dpad o + w_ipad o + ld_size (blen (enc_header (roots_opt nilroots roots) 1)) + ops_size (ops ++ [OpPut c d]) < two64) ->
    forall s1,
      impl_step hdrdec f (last (map fst (trace (impl_step hdrdec f) s0 ops)) s0) (OpPut c d) = (s1, ONil) ->
      (stored_of s1 = stored_of (last (map fst (trace (impl_step hdrdec f) s0 ops)) s0) /\
       (negb (w_storeid o) && is_identity p = true \/
        m_present o (stored_of (last (map fst (trace (impl_step hdrdec f) s0 ops)) s0)) c = true)) \/
      stored_of s1 = stored_of (last (map fst (trace (impl_step hdrdec f) s0 ops)) s0) ++ [(c, d)].
Proof. exact skip_only_if_present. Qed.
Print Assumptions C04_skip_only_if_present.

(* an over-long CID is rejected and the store state is exactly what it was: in EVERY state *)
Theorem C04_oversize_rejected_unchanged :
  forall (hdrdec : bytes -> option (list bytes * N)) (f : front) (s : wstate) (c d : bytes) (p : cidp),
    cid_parse c = Some p -> negb (w_storeid (ws_opts s)) && is_identity p = false ->
    w_maxcid (ws_opts s) < blen c -> ws_closed s = false -> ws_finalized s = false ->
    impl_step hdrdec f s (OpPut c d) = (s, OErr ECidTooLarge).
Proof. exact oversize_rejected_unchanged. Qed.
Print Assumptions C04_oversize_rejected_unchanged.

(* Finalize (either front-end, either format) and Discard leave the store closed: in EVERY state *)
Theorem C04_finalize_closes :
  forall (hdrdec : bytes -> option (list bytes * N)) (f : front) (s : wstate),
    ws_closed (fst (impl_step hdrdec f s OpFinalize)) = true.
Proof. exact finalize_closes. Qed.
Print Assumptions C04_finalize_closes.

Theorem C04_discard_closes :
  forall (hdrdec : bytes -> option (list bytes * N)) (f : front) (s : wstate),
    is_bs f = true ->     (* either blockstore variant: on its own file (FBs) or on the caller's (FBf) *)
    ws_closed (fst (impl_step hdrdec f s OpDiscard)) = true.
Proof. exact discard_closes. Qed.
Print Assumptions C04_discard_closes.

(* on a closed store every write and every non-identity lookup returns an error and changes nothing *)
Theorem C04_after_close_errors :
  forall (hdrdec : bytes -> option (list bytes * N)) (f : front) (s : wstate) (c d : bytes) (p : cidp),
    ws_closed s = true -> cid_parse c = Some p ->
    impl_step hdrdec f s (OpPut c d) = (s, OErr EClosed) /\
    impl_step hdrdec f s (OpHas c) = (s, OErr EClosed) /\
    (is_identity p = false -> f <> FSt false -> impl_step hdrdec f s (OpGet c) = (s, OErr EClosed)) /\
    (is_bs f = true -> forall l, impl_step hdrdec f s (OpPutMany l) = (s, OErr EClosed)) /\
    (is_bs f = true -> is_identity p = false -> impl_step hdrdec f s (OpGetSize c) = (s, OErr EClosed)) /\
    (is_bs f = true -> impl_step hdrdec f s OpKeys = (s, OErr EClosed)).
Proof. exact after_close_errors. Qed.
Print Assumptions C04_after_close_errors.

(* once a store is closed (or, for either blockstore variant, finalized) the file never changes again,
   whatever operations follow -- in particular on the OpenReadWriteFile variant (FBf), where the
   caller's file stays open after Close/Discard and a stray write would land in it *)
Theorem C04_file_frozen_after_finalize :
  forall (hdrdec : bytes -> option (list bytes * N)) (f : front) (ops : list sop) (s : wstate),
    ws_closed s = true \/ (is_bs f = true /\ ws_finalized s = true) ->
    Forall (fun s' => ws_file s' = ws_file s) (map fst (trace (impl_step hdrdec f) s ops)).
Proof. exact file_frozen. Qed.
Print Assumptions C04_file_frozen_after_finalize.

(* ---- across reopen (composition with C12's resume model) ------------------------------------------------- *)
From GoCar Require Import Scan Crash.
From GoCarProofs Require ResumeInv StoreSpecResume.

(* (A) Whatever file a session left behind -- [cut_file c st]: the live file after Discard, or the
   finalized CARv2 -- holding the blocks [st]: reopening it (ResumableVersion + Resume) succeeds and the
   reopened store refines the reference map PRE-LOADED with [st], for every front-end and history *)
Theorem C04_refines_map_resumed :
  forall (hdrdec : bytes -> option (list bytes * N)) (k : skind) (o : wopts) (nilroots : bool)
         (roots : list bytes),
    hdrdec (enc_header (roots_opt nilroots roots) 1) = Some (roots, 1) ->
    (exists r, hdrdec pragma_body = Some (r, 2)) ->
    blen (enc_header (roots_opt nilroots roots) 1) <= w_maxh o ->
    w_maxcid o <= max_digest_alloc ->
    forall (c : cut) (st : list block) (f : front) (ops : list sop),
    Forall (fun b => (exists p, cid_ok p /\ fst b = cid_enc p /\ blen (c_digest p) <= max_digest_alloc) /\
                     blen (fst b) + blen (snd b) <= w_maxs o /\ blen (fst b) + blen (snd b) < two63) st ->
    51 + w_dpad o + w_ipad o + ld_size (blen (enc_header (roots_opt nilroots roots) 1)) + blen (enc_sections st) < two63 ->
    Forall (op_ok o) ops ->
    51 + w_dpad o + w_ipad o + ld_size (blen (enc_header (roots_opt nilroots roots) 1)) + blen (enc_sections st)
      + ops_size ops < two64 ->
    exists s, reopen hdrdec k o nilroots roots (ResumeInv.cut_file o nilroots roots c st) = inl s /\
              outs (trace (impl_step hdrdec f) s ops) = outs (trace (spec_step f o roots) (mkm st false false) ops).
Proof. exact StoreSpecResume.refines_map_resumed_x. Qed.
Print Assumptions C04_refines_map_resumed.

(* (B) From an empty file: a session of Puts, PutManys and queries, ended by Discard or Finalize ([end_seg c]); the
   file it leaves reopens, and the reopened store continues exactly as the reference map holding the
   session's blocks, with fresh flags -- for every continuation, lifecycle calls included *)
Theorem C04_refines_map_across_reopen :
  forall (hdrdec : bytes -> option (list bytes * N)) (k : skind) (o : wopts) (nilroots : bool)
         (roots : list bytes),
    hdrdec (enc_header (roots_opt nilroots roots) 1) = Some (roots, 1) ->
    (exists r, hdrdec pragma_body = Some (r, 2)) ->
    blen (enc_header (roots_opt nilroots roots) 1) <= w_maxh o ->
    w_maxcid o <= max_digest_alloc ->
    forall (f : front) (c : cut) (ops1 ops2 : list sop) (s0 : wstate),
    (match f with FSt _ => exists w, k = KStorage w | _ => k = KBlockstore end) ->
    match k with KStorage false => negb (w_v1 o) | _ => false end = false ->
    open_new k o nilroots roots [] = Ok s0 ->
    Forall (fun op => match op with OpPut _ _ | OpPutMany _ | OpHas _ | OpGet _ | OpGetSize _ | OpKeys | OpRoots => true
                                  | _ => false end = true) ops1 ->
    Forall (op_ok o) ops1 -> Forall (op_ok o) ops2 ->
    51 + w_dpad o + w_ipad o + ld_size (blen (enc_header (roots_opt nilroots roots) 1))
      + ops_size ops1 + ops_size ops2 < two63 ->
    exists s2,
      reopen hdrdec k o nilroots roots
             (ws_file (end_seg c (last (map fst (trace (impl_step hdrdec f) s0 ops1)) s0))) = inl s2 /\
      outs (trace (impl_step hdrdec f) s2 ops2)
      = outs (trace (spec_step f o roots)
                    (mkm (m_blocks (last (map fst (trace (spec_step f o roots) m_empty ops1)) m_empty)) false false)
                    ops2).
Proof. exact StoreSpecResume.refines_map_across_reopen_x. Qed.
Print Assumptions C04_refines_map_across_reopen.

(* ---- stutter steps: ReadWrite.DeleteBlock (unsupported: always an error) and HashOnRead (a no-op) -----------
   [xtrace] (theories/RunMap.v) runs histories of map operations [XOp], stutter steps [XDelete], [XHashOnRead]
   (and reopen); per step it yields the file after the step and the result.  A history without reopen
   returns, at the map operations, exactly what the history without the stutter steps returns ([x_sops]),
   the fixed answers at the stutter steps ([weave]: error for DeleteBlock, nothing for HashOnRead), and
   ends with the same file: the refinement theorems above apply to [x_sops ops]. *)
From GoCar Require Import Val RunStore RunMap.
From GoCarProofs Require StoreSpecStutter.
Theorem C04_stutter_steps :
  forall (hdrdec : bytes -> option (list bytes * N)) (f : front) (o : wopts) (nilroots : bool)
         (roots : list bytes) (ops : list xop) (s : wstate),
    forallb (fun x => match x with XReopen => false | _ => true end) ops = true ->
    map snd (xtrace hdrdec f o nilroots roots s ops)
      = weave ops (outs (trace (impl_step hdrdec f) s (x_sops ops))) /\
    last (map fst (xtrace hdrdec f o nilroots roots s ops)) (ws_file s)
      = ws_file (last (map fst (trace (impl_step hdrdec f) s (x_sops ops))) s).
Proof. exact StoreSpecStutter.xtrace_stutter. Qed.
Print Assumptions C04_stutter_steps.

(* ---- the readers' size limits: MaxAllowedSectionSize / MaxAllowedHeaderSize (strict ">": a length EQUAL to the
   limit is accepted) ------------------------------------------------------------------------------------------
   [spec_step_lim] (StoreSpec.v) is the reference map that knows the limits: a lookup walks the stored blocks
   carrying the key's digest and is refused with ESectionTooLarge at one whose section is LONGER than the
   limit; Roots is refused with EHeaderTooLarge when the header is LONGER than the limit. *)
From GoCarProofs Require StoreSpecLimits.

(* within the limits -- every put section of length <= MaxAllowedSectionSize, header <= MaxAllowedHeaderSize --
   the stores refine the map with limits (which is then the plain map): every read op reads back *)
Theorem C04_refines_map_with_limits :
  forall (hdrdec : bytes -> option (list bytes * N)) (k : skind) (o : wopts) (nilroots : bool)
         (roots : list bytes),
    51 + w_dpad o + w_ipad o < two64 ->
    hdrdec (enc_header (roots_opt nilroots roots) 1) = Some (roots, 1) ->
    blen (enc_header (roots_opt nilroots roots) 1) <= w_maxh o ->
    blen (enc_header (roots_opt nilroots roots) 1) < two63 ->
    forall s0 : wstate, open_new k o nilroots roots [] = Ok s0 ->
    forall (f : front) (ops : list sop),
    (Forall (op_ok o) ops /\
     51 + w_dpad o + w_ipad o + ld_size (blen (enc_header (roots_opt nilroots roots) 1)) + ops_size ops < two64) ->
    outs (trace (impl_step hdrdec f) s0 ops)
    = outs (trace (spec_step_lim f o roots (blen (enc_header (roots_opt nilroots roots) 1))) m_empty ops).
Proof. exact StoreSpecLimits.refines_map_lim. Qed.
Print Assumptions C04_refines_map_with_limits.

(* beyond the limit: a block with a fresh digest that Put accepts although its section is LONGER than
   MaxAllowedSectionSize: Has says yes, Get (both front-ends) and GetSize refuse with ESectionTooLarge *)
Theorem C04_oversize_section_is_refused_by_readers :
  forall (s : wstate) (hb : bytes) (bs : stored_blocks) (c d : bytes) (p : cidp),
    StoreInv.Inv s hb bs -> d_faults (ws_dev s) = [] -> cid_parse c = Some p ->
    Forall (fun b => forall q, cid_parse (fst b) = Some q -> bytes_eqb (c_digest q) (c_digest p) = false) bs ->
    should_put (ws_opts s) (ws_idx s) c p = Ok true ->
    w_maxs (ws_opts s) < blen c + blen d -> blen c + blen d < two63 ->
    ws_closed s = false -> negb (w_storeid (ws_opts s)) && is_identity p = false ->
    snd (put_one s c d p) = ONil /\
    bs_has (fst (put_one s c d p)) c = OBool true /\
    bs_get (fst (put_one s c d p)) c = OErr ESectionTooLarge /\
    (is_identity p = false -> bs_getsize (fst (put_one s c d p)) c = OErr ESectionTooLarge) /\
    st_get (fst (put_one s c d p)) true c = OErr ESectionTooLarge.
Proof. exact StoreSpecLimits.oversize_put_then_read. Qed.
Print Assumptions C04_oversize_section_is_refused_by_readers.

Theorem C04_header_over_limit_is_refused :
  forall (hdrdec : bytes -> option (list bytes * N)) (s : wstate) (hb : bytes) (bs : stored_blocks),
    StoreInv.Inv s hb bs -> ws_closed s = false -> w_maxh (ws_opts s) < blen hb -> blen hb < two63 ->
    bs_roots hdrdec s = OErr EHeaderTooLarge.
Proof. exact StoreSpecLimits.roots_header_over_limit. Qed.
Print Assumptions C04_header_over_limit_is_refused.
