(* C04 -- placeholder while the check is being wired; replaced by the theorems. *)
From GoCar Require Import Bytes StoreSpec.
Theorem C04_placeholder : m_frozen m_empty = false.
Proof. exact eq_refl. Qed.
Print Assumptions C04_placeholder.
