(* C07 -- read-only random access agrees with a sequential scan of the same archive.
   Only statements closed by [exact]; proofs are in proofs/ReadOnly*.v.

   Vocabulary (theories/ReadOnly.v, proofs/ReadOnlyFacts.v):
     car_file ct ro bs npad        the bytes of the constructed archive (ro = Some roots, or None when the
                                   writer was given a nil root slice: CBOR null in the header; hdr_roots ro
                                   are the roots either way): CV1 = CARv1 payload
                                   (header, sections bs, npad zero bytes); CV2 chi clo dpad ipad emb =
                                   pragma, v2 header (characteristics chi/clo), dpad zeros, that payload,
                                   ipad zeros and, for emb = Some (codec, withid), index.WriteTo of the
                                   index Load()ed from the payload's section records (identity CIDs
                                   kept iff withid)
     rblock_ok maxs maxcid (c,d)   c is a well-formed CID (digest fits an index bucket), |c| <= maxcid,
                                   |c|+|d| <= maxs
     ro_open / sto_open            blockstore.NewReadOnly / storage.OpenReadable
     ro_has ro_get ro_getsize ro_keys ro_roots sto_get sto_roots   the query methods
     br_read_all                   the front-to-back scan (v2 BlockReader, trusted mode: nothing on the
                                   read-only path hashes)
     carries whole key kp (c,d)    section (c,d) carries the key: same multihash, or same CID if whole
     index_wid o ct sup            identity setting of the index in use: the supplied index's, else the
                                   embedded index's, else (generated on open) StoreIdentityCIDs itself *)
From GoCar Require Import Bytes Varint Cid Header Frame V2Header Scan Index Store ReadOnly.
From GoCarProofs Require Import HeaderFacts ReadOnlyFacts ReadOnlyRefine ReadOnlyOpen ReadOnlyMain ReadOnlyClose.

(* The read-only blockstore.  For every constructed archive within the limits of the options it is
   opened with (any ro, any sections incl. duplicates and hash-equal ones, null padding only with
   ZeroLengthSectionAsEOF, CARv1 or CARv2 with any paddings, index-less or with an embedded index of
   either codec), any caller-supplied index generated from the same payload, every option row and
   every key:  the open succeeds; the front-to-back scan yields exactly (ro, bs); AllKeysChan is the
   scan's CID sequence (raw-codec multihash keys unless whole CIDs); Roots are the ro; Has is true
   iff some section carries the key (or the key is an identity CID and StoreIdentityCIDs is off); Get
   returns the bytes of A section carrying the key, else not-found; GetSize likewise (identity keys
   always answer len(digest)).
   Guard (executable, [negb (q_storeid o && is_identity kp) || index_wid o ct sup]): an identity key
   under StoreIdentityCIDs needs an index that has identity entries -- C07_has_refuted shows the
   statement is false without it; C07_guard_* show it excludes nothing else. *)
Theorem C07_ro_refines_scan_partial :
  forall (o : qopts) (ct : container) (ro : option (list bytes)) (bs : list block) (npad : N) (file : bytes)
         (sup : option qopts) (si : option ridx),
    car_file ct ro bs npad = Some file ->
    roots_ok (hdr_roots ro) ->
    (blen (enc_header ro 1) <= q_maxh o /\
     Forall (rblock_ok (q_maxs o) (q_maxcid o)) bs /\
     (npad = 0 \/ q_zeof o = true)) ->
    blen file < two63 ->
    (q_codec o = codec_sorted \/ q_codec o = codec_mh_sorted) ->
    match ct with
    | CV1 => True
    | CV2 chi clo _ _ emb => chi < two64 /\ clo < two64 /\ 10 <= q_maxh o /\
                             (emb <> None -> N.of_nat (length bs) < two31)
    end ->
    match sup with
    | None => si = None
    | Some og =>
        (blen (enc_header ro 1) <= q_maxh og /\
         Forall (rblock_ok (q_maxs og) (q_maxcid og)) bs /\
         (npad = 0 \/ q_zeof og = true)) /\
        exists i, gen_flat dec_header_canon og 0 (payload_np ro bs npad) = Ok i /\ si = Some i
    end ->
    exists s, ro_open dec_header_canon o file si = Ok s /\
      br_read_all (fun _ _ => None) dec_header_canon (mkropts (q_zeof o) (q_maxh o) (q_maxs o) true) file
        = Ok (match ct with CV1 => 1 | CV2 _ _ _ _ _ => 2 end, hdr_roots ro, mkscan bs EEof) /\
      ro_keys dec_header_canon s = KKeys (ref_keys (q_whole o) bs) None /\
      ro_roots dec_header_canon s = OKeys (hdr_roots ro) /\
      forall key kp, cid_parse key = Some kp ->
        (* GetSize *)
        (if is_identity kp then ro_getsize s key = OSize (Z.of_N (blen (c_digest kp)))
         else (existsb (carries (q_whole o) key kp) bs = true ->
                 exists c d, In (c, d) bs /\ carries (q_whole o) key kp (c, d) = true /\
                             ro_getsize s key = OSize (Z.of_N (blen d))) /\
              (existsb (carries (q_whole o) key kp) bs = false -> ro_getsize s key = OErr ENotFound)) /\
        (negb (q_storeid o && is_identity kp) || index_wid o ct sup = true ->
           (* Has *)
           ro_has s key = OBool ((negb (q_storeid o) && is_identity kp) || existsb (carries (q_whole o) key kp) bs) /\
           (* Get *)
           (if negb (q_storeid o) && is_identity kp then ro_get s key = OBytes (c_digest kp)
            else (existsb (carries (q_whole o) key kp) bs = true ->
                    exists c d, In (c, d) bs /\ carries (q_whole o) key kp (c, d) = true /\
                                ro_get s key = OBytes d) /\
                 (existsb (carries (q_whole o) key kp) bs = false -> ro_get s key = OErr ENotFound))).
Proof. exact C07_ro_full. Qed.
Print Assumptions C07_ro_refines_scan_partial.

(* The readable storage (OpenReadable has no index parameter): Has / Get / GetStream / Roots. *)
Theorem C07_storage_refines_scan_partial :
  forall (o : qopts) (ct : container) (ro : option (list bytes)) (bs : list block) (npad : N) (file : bytes),
    car_file ct ro bs npad = Some file ->
    roots_ok (hdr_roots ro) ->
    (blen (enc_header ro 1) <= q_maxh o /\
     Forall (rblock_ok (q_maxs o) (q_maxcid o)) bs /\
     (npad = 0 \/ q_zeof o = true)) ->
    blen file < two63 ->
    (q_codec o = codec_sorted \/ q_codec o = codec_mh_sorted) ->
    match ct with
    | CV1 => True
    | CV2 chi clo _ _ emb => chi < two64 /\ clo < two64 /\ 10 <= q_maxh o /\
                             (emb <> None -> N.of_nat (length bs) < two31)
    end ->
    exists s, sto_open dec_header_canon o file = Ok s /\
      br_read_all (fun _ _ => None) dec_header_canon (mkropts (q_zeof o) (q_maxh o) (q_maxs o) true) file
        = Ok (match ct with CV1 => 1 | CV2 _ _ _ _ _ => 2 end, hdr_roots ro, mkscan bs EEof) /\
      sto_roots s = OKeys (hdr_roots ro) /\
      forall key kp, cid_parse key = Some kp ->
        negb (q_storeid o && is_identity kp) || index_wid o ct None = true ->
        ro_has s key = OBool ((negb (q_storeid o) && is_identity kp) || existsb (carries (q_whole o) key kp) bs) /\
        (if negb (q_storeid o) && is_identity kp then sto_get s key = OBytes (c_digest kp)
         else (existsb (carries (q_whole o) key kp) bs = true ->
                 exists c d, In (c, d) bs /\ carries (q_whole o) key kp (c, d) = true /\
                             sto_get s key = OBytes d) /\
              (existsb (carries (q_whole o) key kp) bs = false -> sto_get s key = OErr ENotFound)).
Proof. exact C07_sto_full. Qed.
Print Assumptions C07_storage_refines_scan_partial.

(* The two front-ends agree on every query they share: Roots, Has, and Get (on archives whose
   sections with equal multihash carry equal bytes -- which of several carrying sections is returned
   is the index's choice). *)
Theorem C07_frontends_agree :
  forall (o : qopts) (ct : container) (ro : option (list bytes)) (bs : list block) (npad : N) (file : bytes)
         (sup : option qopts) (si : option ridx) (s1 s2 : rostate),
    car_file ct ro bs npad = Some file ->
    roots_ok (hdr_roots ro) ->
    (blen (enc_header ro 1) <= q_maxh o /\
     Forall (rblock_ok (q_maxs o) (q_maxcid o)) bs /\
     (npad = 0 \/ q_zeof o = true)) ->
    blen file < two63 ->
    (q_codec o = codec_sorted \/ q_codec o = codec_mh_sorted) ->
    match ct with
    | CV1 => True
    | CV2 chi clo _ _ emb => chi < two64 /\ clo < two64 /\ 10 <= q_maxh o /\
                             (emb <> None -> N.of_nat (length bs) < two31)
    end ->
    match sup with
    | None => si = None
    | Some og =>
        (blen (enc_header ro 1) <= q_maxh og /\
         Forall (rblock_ok (q_maxs og) (q_maxcid og)) bs /\
         (npad = 0 \/ q_zeof og = true)) /\
        exists i, gen_flat dec_header_canon og 0 (payload_np ro bs npad) = Ok i /\ si = Some i
    end ->
    ro_open dec_header_canon o file si = Ok s1 -> sto_open dec_header_canon o file = Ok s2 ->
    ro_roots dec_header_canon s1 = sto_roots s2 /\
    forall key kp, cid_parse key = Some kp ->
      negb (q_storeid o && is_identity kp) || index_wid o ct sup = true ->
      negb (q_storeid o && is_identity kp) || index_wid o ct None = true ->
      ro_has s1 key = ro_has s2 key /\
      ((forall b1 b2 p1 p2, In b1 bs -> In b2 bs ->
          cid_parse (fst b1) = Some p1 -> cid_parse (fst b2) = Some p2 ->
          c_mhcode p1 = c_mhcode p2 -> c_digest p1 = c_digest p2 -> snd b1 = snd b2) ->
       ro_get s1 key = sto_get s2 key).
Proof. exact C07_agree_full. Qed.
Print Assumptions C07_frontends_agree.

(* The guard is false exactly for an identity key under StoreIdentityCIDs with an index that has no
   identity entries; it is true whenever the index is generated on open, and whenever a supplied
   index was generated with the same identity setting. *)
Theorem C07_guard_false_iff :
  forall o wid kp,
    negb (q_storeid o && is_identity kp) || wid = false <->
    q_storeid o = true /\ is_identity kp = true /\ wid = false.
Proof. exact id_guard_false_iff. Qed.
Print Assumptions C07_guard_false_iff.

Theorem C07_guard_generated :
  forall o ct kp,
    (match ct with CV2 _ _ _ _ (Some _) => False | _ => True end) ->
    negb (q_storeid o && is_identity kp) || index_wid o ct None = true.
Proof. exact id_guard_generated. Qed.
Print Assumptions C07_guard_generated.

Theorem C07_guard_same_setting :
  forall o ct og kp,
    q_storeid og = q_storeid o ->
    negb (q_storeid o && is_identity kp) || index_wid o ct (Some og) = true.
Proof. exact id_guard_same_setting. Qed.
Print Assumptions C07_guard_same_setting.

(* Histories with Close (read-only blockstore).  ss_run s ops = the answers of any sequence of
   Has / Get / GetSize / AllKeysChan / Roots / Close operations on the opened store (mmap = Close also closes
   the backing, as with OpenReadOnly).  run_spec (proofs/ReadOnlyClose.v) requires of the i-th answer, with
   closed = "a Close occurs among the first i operations":
     Has key      identity short cut -> true; else closed -> errClosed; else the scan's verdict
     Get key      identity short cut -> the digest; else closed -> errClosed; else the bytes of a carrying
                  section / not-found (get_spec, as in C07_ro_refines_scan_partial)
     GetSize key  identity key -> len(digest); else closed -> errClosed; else the size / not-found
     AllKeysChan  closed -> errClosed, else the scan's CID sequence without error
     Roots        the roots -- also on a closed store (it never checks), unless Close closed the backing
     Close        nil, every time
     Put / PutMany / DeleteBlock   refused with errReadOnly, open or closed; HashOnRead: nil.  These are stutter
                  steps: like every operation but Close they leave the session state (store, backing) unchanged,
                  so the answers before and after them are the same
     Index().GetAll key   only offsets at which the payload has a section, and the offset of every section
                  carrying the key's multihash (identity sections only if the index in use has identity entries)
   (Has / Get under the same guard as above.) *)
Theorem C07_history_with_close_partial :
  forall (o : qopts) (ct : container) (ro : option (list bytes)) (bs : list block) (npad : N) (file : bytes)
         (sup : option qopts) (si : option ridx),
    car_file ct ro bs npad = Some file ->
    roots_ok (hdr_roots ro) ->
    (blen (enc_header ro 1) <= q_maxh o /\
     Forall (rblock_ok (q_maxs o) (q_maxcid o)) bs /\
     (npad = 0 \/ q_zeof o = true)) ->
    blen file < two63 ->
    (q_codec o = codec_sorted \/ q_codec o = codec_mh_sorted) ->
    match ct with
    | CV1 => True
    | CV2 chi clo _ _ emb => chi < two64 /\ clo < two64 /\ 10 <= q_maxh o /\
                             (emb <> None -> N.of_nat (length bs) < two31)
    end ->
    match sup with
    | None => si = None
    | Some og =>
        (blen (enc_header ro 1) <= q_maxh og /\
         Forall (rblock_ok (q_maxs og) (q_maxcid og)) bs /\
         (npad = 0 \/ q_zeof og = true)) /\
        exists i, gen_flat dec_header_canon og 0 (payload_np ro bs npad) = Ok i /\ si = Some i
    end ->
    exists s, ro_open dec_header_canon o file si = Ok s /\
      forall mmap ops, run_spec o (index_wid o ct sup) ro bs npad false mmap ops
                                (ss_run dec_header_canon (mkss s false mmap) ops).
Proof. exact C07_history_full. Qed.
Print Assumptions C07_history_with_close_partial.

(* every operation but Close leaves the session -- store, index, backing, closed flag -- exactly as it was *)
Theorem C07_only_close_changes_the_session :
  forall hdrdec ss op, op <> RClose -> fst (ss_step hdrdec ss op) = ss.
Proof. exact ss_step_stutter. Qed.
Print Assumptions C07_only_close_changes_the_session.

(* Index offsets that do not fit int64 (hand-crafted or damaged index): FindCid only ever visits candidate
   offsets below 2^63 -- nothing is read from a wrapped-around position -- and when the walk reaches a
   larger one without having found the key, the query fails (io.EOF behind a CARv2's SectionReader, an
   error from a plain ReaderAt); it never answers with a block. *)
Theorem C07_candidates_visited_are_int64 :
  forall offs, Forall (fun off => off < two63) (fst (int64_prefix offs)).
Proof. exact int64_prefix_bound. Qed.
Print Assumptions C07_candidates_visited_are_int64.

Theorem C07_offset_beyond_int64_is_an_error :
  forall s key kp rb,
    snd (int64_prefix (ridx_getall (s_idx s) kp)) = true ->
    find_cid (s_view s) (fst (int64_prefix (ridx_getall (s_idx s) kp))) key kp
             (q_whole (s_opts s)) (q_zeof (s_opts s)) (q_maxs (s_opts s)) rb = Err ENotFound ->
    ro_find s key kp rb = Err (if s_v2 s then EEof else EOther).
Proof. exact ro_find_beyond_int64. Qed.
Print Assumptions C07_offset_beyond_int64_is_an_error.

(* The unguarded statement is false of the (faithful model of the) unchanged code: *)
(* (1) a valid CARv2 whose embedded index has no identity entries, opened with StoreIdentityCIDs:
       a section carries the identity key, Has says false and Get says not-found (both front-ends) *)
Theorem C07_has_refuted :
  exists o ct ro bs npad file key kp s,
    file_ok dec_header_canon o ct ro bs npad file /\
    ro_open dec_header_canon o file None = Ok s /\ cid_parse key = Some kp /\
    ref_has o key kp bs = true /\ ro_has s key = OBool false /\ ro_get s key = OErr ENotFound.
Proof. exact has_refuted. Qed.
Print Assumptions C07_has_refuted.

Theorem C07_storage_has_refuted :
  exists o ct ro bs npad file key kp s,
    file_ok dec_header_canon o ct ro bs npad file /\
    sto_open dec_header_canon o file = Ok s /\ cid_parse key = Some kp /\
    ref_has o key kp bs = true /\ ro_has s key = OBool false /\ sto_get s key = OErr ENotFound.
Proof. exact sto_has_refuted. Qed.
Print Assumptions C07_storage_has_refuted.

(* (2) GetSize of an identity key that no section carries, under StoreIdentityCIDs: Has = false,
       Get = not-found, GetSize = len(digest) instead of not-found *)
Theorem C07_getsize_refuted :
  exists o ct ro bs npad file key kp s,
    file_ok dec_header_canon o ct ro bs npad file /\
    ro_open dec_header_canon o file None = Ok s /\ cid_parse key = Some kp /\
    ref_has o key kp bs = false /\ ro_has s key = OBool false /\ ro_get s key = OErr ENotFound /\
    ro_getsize s key = OSize 1.
Proof. exact getsize_refuted. Qed.
Print Assumptions C07_getsize_refuted.
