(* placeholder until the proofs land *)
