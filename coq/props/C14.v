(* C14 -- block reader positions are exact under any mix of Next and SkipNext.
   Only statements closed by [exact]; proofs live in proofs/BlockReaderPos*.v.

   Reading guide.  [brp_run hok hdrdec o seek file w] is the model of
   NewBlockReader(file) followed by the calls chosen by [w] (true = Next, false = SkipNext)
   over a source that is an io.ReadSeeker ([seek = true]: bytes.Reader, *os.File; SkipNext
   seeks on a CARv1) or a plain io.Reader ([seek = false]: SkipNext discards).  A step records
   what the call returned (block, or BlockMetadata (cid, Offset, SourceOffset, Size)) and the
   source's read position and consumption high-water mark after the call.
   "Valid archive" is a *constructed* one: [enc_payload roots bs], bare or wrapped by
   [v2_file] with arbitrary characteristics, padding bytes, index offset and trailing bytes.
   Hypotheses: the header decoder inverts the header encoder on these roots (discharged for
   the canonical decoder by HeaderFacts.dec_header_enc), header and sections within the
   configured limits, CIDs well-formed with digests <= 32 MiB (go-cid's stream parser cap),
   and -- unless the reader is told to trust the CAR -- blocks hashing to their CIDs. *)
From GoCar Require Import Bytes Varint Cid Header Frame V2Header Scan BlockReaderPos.
From GoCar Require Import Index.
From GoCarProofs Require Import CidFacts ScanFacts BlockReaderPosFacts BlockReaderPosC14 BlockReaderPosMore BlockReaderPosTrunc BlockReaderPosWrap.

(* CARv1, every option set, both source kinds, every choice string: the walk visits exactly
   the scan's blocks in order (as many as there are choices), ends with io.EOF iff the choices
   outnumber the blocks, and for step i: the file is [prefix ++ section i ++ rest] with
   |prefix| = start i; the source position after the step is start (i+1) (= the end of section i);
   a Next returns block i; a SkipNext returns (cid i, Offset = SourceOffset = start i,
   Size = |data i|). *)
Theorem C14_positions_exact_carv1 :
  forall hok hdrdec o seek roots bs w,
    hdrdec (enc_header (Some roots) 1) = Some (roots, 1) ->
    blen (enc_header (Some roots) 1) <= o_maxh o -> blen (enc_header (Some roots) 1) < two63 ->
    Forall (block_ok (o_maxs o)) bs -> Forall (fun b => cid_stream_ok (fst b)) bs ->
    (o_trusted o = false -> Forall (hash_good hok) bs) ->
    let start k := blen (ld (enc_header (Some roots) 1) ++ enc_sections (firstn k bs)) in
    exists st0 steps e fin,
      brp_run hok hdrdec o seek (enc_payload roots bs) w = Ok (1, roots, st0, (steps, (e, fin))) /\
      br_read_all hok hdrdec o (enc_payload roots bs) = Ok (1, roots, mkscan bs EEof) /\
      map step_cid steps = firstn (length w) (map fst bs) /\
      length steps = Nat.min (length w) (length bs) /\
      e = (if (length bs <? length w)%nat then Some EEof else None) /\
      forall i s, nth_error steps i = Some s ->
        exists c d ch hw, nth_error bs i = Some (c, d) /\ nth_error w i = Some ch /\
          enc_payload roots bs
          = (ld (enc_header (Some roots) 1) ++ enc_sections (firstn i bs))
            ++ enc_section c d ++ enc_sections (skipn (S i) bs) /\
          hw <= start (S i) /\
          s = if ch : bool then StN c d (start (S i)) hw
              else StS (mkmeta c (start i) (start i) (blen d)) (start (S i)) hw.
Proof. exact c14_v1. Qed.
Print Assumptions C14_positions_exact_carv1.

(* CARv2 (any characteristics, any padding bytes, any index offset, anything after the
   payload), both source kinds, every choice string: as above with SourceOffset = base + start i
   and Offset = start i (the offset inside the payload, which is what an index records), and
   the source is never consumed past base + |payload|: not by NewBlockReader, not by any step,
   not by the call that reports the end. *)
Theorem C14_positions_exact_carv2 :
  forall hok hdrdec o seek roots bs w hi lo ioff pad trailer,
    hdrdec (enc_header (Some roots) 1) = Some (roots, 1) ->
    blen (enc_header (Some roots) 1) <= o_maxh o -> blen (enc_header (Some roots) 1) < two63 ->
    Forall (block_ok (o_maxs o)) bs -> Forall (fun b => cid_stream_ok (fst b)) bs ->
    (o_trusted o = false -> Forall (hash_good hok) bs) ->
    hdrdec pragma_body = Some ([], 2) -> 10 <= o_maxh o ->
    hi < two64 -> lo < two64 -> ioff < two63 ->
    51 + blen pad < two63 -> blen (enc_payload roots bs) < two63 ->
    let file := v2_file hi lo ioff pad (enc_payload roots bs) trailer in
    let base := 51 + blen pad in
    let start k := blen (ld (enc_header (Some roots) 1) ++ enc_sections (firstn k bs)) in
    let payload_end := base + blen (enc_payload roots bs) in
    exists st0 steps e fin,
      brp_run hok hdrdec o seek file w = Ok (2, roots, st0, (steps, (e, fin))) /\
      map step_cid steps = firstn (length w) (map fst bs) /\
      length steps = Nat.min (length w) (length bs) /\
      e = (if (length bs <? length w)%nat then Some EEof else None) /\
      (forall i s, nth_error steps i = Some s ->
        exists c d ch hw, nth_error bs i = Some (c, d) /\ nth_error w i = Some ch /\
          file = (pragma ++ enc_v2hdr (mkv2 hi lo base (blen (enc_payload roots bs)) ioff) ++ pad
                  ++ ld (enc_header (Some roots) 1) ++ enc_sections (firstn i bs))
                 ++ enc_section c d ++ enc_sections (skipn (S i) bs) ++ trailer /\
          enc_payload roots bs
          = (ld (enc_header (Some roots) 1) ++ enc_sections (firstn i bs))
            ++ enc_section c d ++ enc_sections (skipn (S i) bs) /\
          blen (pragma ++ enc_v2hdr (mkv2 hi lo base (blen (enc_payload roots bs)) ioff) ++ pad
                ++ ld (enc_header (Some roots) 1) ++ enc_sections (firstn i bs)) = base + start i /\
          hw <= base + start (S i) /\
          s = if ch : bool then StN c d (base + start (S i)) hw
              else StS (mkmeta c (start i) (base + start i) (blen d)) (base + start (S i)) hw) /\
      p_hw st0 <= payload_end /\ (forall s, In s steps -> step_hw s <= payload_end) /\
      p_hw fin <= payload_end.
Proof. exact c14_v2. Qed.
Print Assumptions C14_positions_exact_carv2.

(* For ALL reader states (any input bytes, any options): Next and SkipNext report io.EOF only
   at a clean end -- the stream they read from is exhausted exactly at a call boundary, or
   (ZeroLengthSectionAsEOF) the next section's length is the single byte 0.  In particular a
   source that ends right after a non-zero length varint is not a clean end for either call
   (SkipNext: after notes/fixes/C14-skipnext-eof-after-varint.patch). *)
Theorem C14_eof_only_at_a_clean_end :
  forall hok o st,
    (brp_next hok o st = Err EEof ->
       vis st = [] \/ (o_zeof o = true /\ exists rest n, read_uv (vis st) = VOk 0 rest n)) /\
    (brp_skip o st = Err EEof ->
       vis st = [] \/ (o_zeof o = true /\ exists rest n, read_uv (vis st) = VOk 0 rest n)).
Proof. exact c14_eof_clean. Qed.
Print Assumptions C14_eof_only_at_a_clean_end.

(* ---- round 3 ------------------------------------------------------------------------------ *)

(* The stream-parser hypothesis of the two theorems above is implied by the section limit
   whenever MaxAllowedSectionSize <= 32 MiB (default: 8 MiB): for default options the theorems
   need no assumption about digest lengths. *)
Theorem C14_stream_parser_hypothesis_holds_within_32MiB :
  forall maxs bs,
    maxs <= max_digest_alloc -> Forall (block_ok maxs) bs ->
    Forall (fun b => cid_stream_ok (fst b)) bs.
Proof. exact stream_ok_within_cap. Qed.
Print Assumptions C14_stream_parser_hypothesis_holds_within_32MiB.

(* For ALL reader states (any bytes, any options): a successful Next / SkipNext advances
   br.offset by exactly the distance the source position moved (never backwards), and the
   metadata SkipNext returns is br.offset before the call (SourceOffset) and br.offset - v1offset
   (Offset).  So br.offset - position is an invariant of every walk. *)
Theorem C14_offset_tracks_source_position :
  forall hok o st,
    (forall b st', brp_next hok o st = Ok (b, st') ->
       p_off st' + p_pos st = p_off st + p_pos st' /\ p_pos st <= p_pos st') /\
    (forall m st', brp_skip o st = Ok (m, st') ->
       p_off st' + p_pos st = p_off st + p_pos st' /\ p_pos st <= p_pos st' /\
       m_soff m = p_off st /\ m_off m = p_off st - p_v1off st).
Proof. exact c14_offset_tracks. Qed.
Print Assumptions C14_offset_tracks_source_position.

(* uint64 arithmetic on br.offset is not modelled; it cannot matter: every offset the theorems
   above mention (SourceOffset, and the position = br.offset after each call) lies inside the
   file, so for a file shorter than 2^64 bytes reducing it modulo 2^64 changes nothing. *)
Theorem C14_offsets_lie_inside_the_file_and_cannot_wrap :
  forall roots bs i,
    (blen (ld (enc_header (Some roots) 1) ++ enc_sections (firstn i bs)) <= blen (enc_payload roots bs)) /\
    (forall hi lo ioff pad trailer,
       51 + blen pad + blen (ld (enc_header (Some roots) 1) ++ enc_sections (firstn i bs))
       <= blen (v2_file hi lo ioff pad (enc_payload roots bs) trailer)) /\
    (forall file off, off <= blen file -> blen file < two64 -> wrap64 off = off).
Proof. exact c14_offsets_inside. Qed.
Print Assumptions C14_offsets_lie_inside_the_file_and_cannot_wrap.

(* CARv2 with an embedded index (index padding, the index as index.WriteTo writes it, anything
   after it, IndexOffset pointing at it), section limit within 32 MiB so no digest hypothesis,
   either source kind, every choice string: the metadata is exact and nothing at or beyond the
   end of the payload -- in particular no byte of the index -- is ever consumed. *)
Theorem C14_positions_exact_carv2_with_embedded_index :
  forall hok hdrdec o seek roots bs w hi lo pad ipad i junk,
    hdrdec (enc_header (Some roots) 1) = Some (roots, 1) ->
    blen (enc_header (Some roots) 1) <= o_maxh o -> blen (enc_header (Some roots) 1) < two63 ->
    Forall (block_ok (o_maxs o)) bs -> o_maxs o <= max_digest_alloc ->
    (o_trusted o = false -> Forall (hash_good hok) bs) ->
    hdrdec pragma_body = Some ([], 2) -> 10 <= o_maxh o ->
    hi < two64 -> lo < two64 ->
    51 + blen pad + blen (enc_payload roots bs) + blen ipad < two63 ->
    let file := v2_indexed hi lo pad (enc_payload roots bs) ipad i junk in
    let base := 51 + blen pad in
    let start k := blen (ld (enc_header (Some roots) 1) ++ enc_sections (firstn k bs)) in
    let index_offset := base + blen (enc_payload roots bs) + blen ipad in
    exists st0 steps e fin,
      brp_run hok hdrdec o seek file w = Ok (2, roots, st0, (steps, (e, fin))) /\
      map step_cid steps = firstn (length w) (map fst bs) /\
      e = (if (length bs <? length w)%nat then Some EEof else None) /\
      (forall k s, nth_error steps k = Some s ->
        exists c d ch hw, nth_error bs k = Some (c, d) /\ nth_error w k = Some ch /\
          s = if ch : bool then StN c d (base + start (S k)) hw
              else StS (mkmeta c (start k) (base + start k) (blen d)) (base + start (S k)) hw) /\
      (forall s, In s steps -> step_hw s <= index_offset - blen ipad) /\
      p_hw fin <= index_offset - blen ipad /\
      drop index_offset file = idx_write i ++ junk.
Proof. exact c14_v2_indexed. Qed.
Print Assumptions C14_positions_exact_carv2_with_embedded_index.

(* ---- extension round ---------------------------------------------------------------------------- *)

(* Walk-level truncation, exact.  For every valid CARv1, every prefix of it that still contains the
   header (k bytes), every option set, source kind and choice string: the cut falls after j whole
   sections, m bytes into the next one; the walk over the prefix returns EXACTLY the first j steps of
   the walk over the whole archive -- same blocks, same metadata (Offset, SourceOffset, Size), same
   source positions and high-water marks, all exact by C14_positions_exact_carv1 -- and then: nothing
   if the choices have run out; io.EOF if the cut is on a section boundary (m = 0: the prefix IS a
   valid archive); otherwise an error that is not io.EOF.  No short block, no step beyond the cut. *)
Theorem C14_walk_over_a_prefix_is_the_prefix_of_the_walk :
  forall hok hdrdec o seek roots bs w k,
    hdrdec (enc_header (Some roots) 1) = Some (roots, 1) ->
    blen (enc_header (Some roots) 1) <= o_maxh o -> blen (enc_header (Some roots) 1) < two63 ->
    Forall (block_ok (o_maxs o)) bs -> Forall (fun b => cid_stream_ok (fst b)) bs ->
    (o_trusted o = false -> Forall (hash_good hok) bs) ->
    blen (ld (enc_header (Some roots) 1)) <= k -> k <= blen (enc_payload roots bs) ->
    exists j m st_full full e_full fin_full st0 e fin,
      brp_run hok hdrdec o seek (enc_payload roots bs) w = Ok (1, roots, st_full, (full, (e_full, fin_full))) /\
      (j <= length bs)%nat /\
      k = blen (ld (enc_header (Some roots) 1) ++ enc_sections (firstn j bs)) + m /\
      (m = 0 \/ exists c d, nth_error bs j = Some (c, d) /\ 0 < m /\ m < blen (enc_section c d)) /\
      brp_run hok hdrdec o seek (take k (enc_payload roots bs)) w
      = Ok (1, roots, st0, (firstn j full, (e, fin))) /\
      ((length w <= j)%nat -> e = None) /\
      ((j < length w)%nat -> m = 0 -> e = Some EEof) /\
      ((j < length w)%nat -> 0 < m -> exists e', e = Some e' /\ e' <> EEof).
Proof. exact c14_prefix_walk_v1. Qed.
Print Assumptions C14_walk_over_a_prefix_is_the_prefix_of_the_walk.

(* br.offset is a uint64.  [brp_run64] (the function the harness runs) reduces every assignment to
   br.offset modulo 2^64; [brp_run] keeps it unbounded.  For EVERY byte string, option set, source
   kind and choice string they are the same function as soon as the state NewBlockReader leaves
   satisfies the size guard (position inside the source; offset + bytes left < 2^64; a known
   readerSize not beyond the source): wrap-around is unreachable, because br.offset only ever grows
   by the distance the source position moves (C14_offset_tracks_source_position). *)
Theorem C14_uint64_offset_cannot_wrap_under_the_size_guard :
  forall hok hdrdec o seek file w,
    (forall v roots st0, brp_open hdrdec o seek file = Ok (v, roots, st0) ->
       p_pos st0 <= blen (p_all st0) /\
       p_off st0 + (blen (p_all st0) - p_pos st0) < two64 /\
       (p_lim st0 = None -> match p_rsize st0 with None => True | Some r => r <= blen (p_all st0) end)) ->
    brp_run64 hok hdrdec o seek file w = brp_run hok hdrdec o seek file w.
Proof. exact brp_run64_eq. Qed.
Print Assumptions C14_uint64_offset_cannot_wrap_under_the_size_guard.

(* ... and every valid archive shorter than 2^64 bytes satisfies the guard, so all theorems of this
   file hold verbatim for the uint64 model. *)
Theorem C14_uint64_model_agrees_on_valid_archives :
  forall hok hdrdec o seek roots bs w,
    hdrdec (enc_header (Some roots) 1) = Some (roots, 1) ->
    blen (enc_header (Some roots) 1) <= o_maxh o -> blen (enc_header (Some roots) 1) < two63 ->
    Forall (block_ok (o_maxs o)) bs -> Forall (fun b => cid_stream_ok (fst b)) bs ->
    (o_trusted o = false -> Forall (hash_good hok) bs) ->
    (blen (enc_payload roots bs) < two64 ->
     brp_run64 hok hdrdec o seek (enc_payload roots bs) w = brp_run hok hdrdec o seek (enc_payload roots bs) w) /\
    (forall hi lo ioff pad trailer,
       hdrdec pragma_body = Some ([], 2) -> 10 <= o_maxh o ->
       hi < two64 -> lo < two64 -> ioff < two63 ->
       51 + blen pad < two63 -> blen (enc_payload roots bs) < two63 ->
       blen (v2_file hi lo ioff pad (enc_payload roots bs) trailer) < two64 ->
       brp_run64 hok hdrdec o seek (v2_file hi lo ioff pad (enc_payload roots bs) trailer) w
       = brp_run hok hdrdec o seek (v2_file hi lo ioff pad (enc_payload roots bs) trailer) w).
Proof. exact c14_run64_valid. Qed.
Print Assumptions C14_uint64_model_agrees_on_valid_archives.

(* CARv2: a prefix that still holds the whole data payload (cut anywhere in the index padding, the
   index or whatever follows) walks exactly like the whole file: same steps, same end. *)
Theorem C14_carv2_prefix_holding_the_payload_walks_like_the_whole_file :
  forall hok hdrdec o seek roots bs w hi lo ioff pad trailer k,
    hdrdec (enc_header (Some roots) 1) = Some (roots, 1) ->
    blen (enc_header (Some roots) 1) <= o_maxh o -> blen (enc_header (Some roots) 1) < two63 ->
    Forall (block_ok (o_maxs o)) bs -> Forall (fun b => cid_stream_ok (fst b)) bs ->
    (o_trusted o = false -> Forall (hash_good hok) bs) ->
    hdrdec pragma_body = Some ([], 2) -> 10 <= o_maxh o ->
    hi < two64 -> lo < two64 -> ioff < two63 ->
    51 + blen pad < two63 -> blen (enc_payload roots bs) < two63 ->
    51 + blen pad + blen (enc_payload roots bs) <= k ->
    exists st0 st0' steps e fin fin',
      brp_run hok hdrdec o seek (v2_file hi lo ioff pad (enc_payload roots bs) trailer) w
      = Ok (2, roots, st0, (steps, (e, fin))) /\
      brp_run hok hdrdec o seek (take k (v2_file hi lo ioff pad (enc_payload roots bs) trailer)) w
      = Ok (2, roots, st0', (steps, (e, fin'))).
Proof. exact c14_prefix_walk_v2_after_payload. Qed.
Print Assumptions C14_carv2_prefix_holding_the_payload_walks_like_the_whole_file.

(* The same exact statement for a cut INSIDE the data payload of a CARv2 (any padding bytes,
   characteristics, index offset, trailer): the io.LimitedReader still promises DataSize bytes, the
   source runs dry earlier.  The walk over the prefix returns exactly the first j steps of the walk over
   the whole file, then io.EOF iff the cut is on a section boundary, otherwise an error that is not
   io.EOF.  With C14_carv2_prefix_holding_the_payload_walks_like_the_whole_file every prefix of a CARv2
   that contains the two headers is covered. *)
Theorem C14_walk_over_a_carv2_prefix_is_the_prefix_of_the_walk :
  forall hok hdrdec o seek roots bs w hi lo ioff pad trailer k,
    hdrdec (enc_header (Some roots) 1) = Some (roots, 1) ->
    blen (enc_header (Some roots) 1) <= o_maxh o -> blen (enc_header (Some roots) 1) < two63 ->
    Forall (block_ok (o_maxs o)) bs -> Forall (fun b => cid_stream_ok (fst b)) bs ->
    (o_trusted o = false -> Forall (hash_good hok) bs) ->
    hdrdec pragma_body = Some ([], 2) -> 10 <= o_maxh o ->
    hi < two64 -> lo < two64 -> ioff < two63 ->
    51 + blen pad < two63 -> blen (enc_payload roots bs) < two63 ->
    let file := v2_file hi lo ioff pad (enc_payload roots bs) trailer in
    let base := 51 + blen pad in
    base + blen (ld (enc_header (Some roots) 1)) <= k -> k <= base + blen (enc_payload roots bs) ->
    exists j m st_full full e_full fin_full st0 e fin,
      brp_run hok hdrdec o seek file w = Ok (2, roots, st_full, (full, (e_full, fin_full))) /\
      (j <= length bs)%nat /\
      k = base + blen (ld (enc_header (Some roots) 1) ++ enc_sections (firstn j bs)) + m /\
      (m = 0 \/ exists c d, nth_error bs j = Some (c, d) /\ 0 < m /\ m < blen (enc_section c d)) /\
      brp_run hok hdrdec o seek (take k file) w = Ok (2, roots, st0, (firstn j full, (e, fin))) /\
      ((length w <= j)%nat -> e = None) /\
      ((j < length w)%nat -> m = 0 -> e = Some EEof) /\
      ((j < length w)%nat -> 0 < m -> exists e', e = Some e' /\ e' <> EEof).
Proof. exact c14_prefix_walk_v2. Qed.
Print Assumptions C14_walk_over_a_carv2_prefix_is_the_prefix_of_the_walk.
