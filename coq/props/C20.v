(* C20 -- the deferred CAR writer is lazy, then identical to a direct writer; callbacks; closed.
   Only statements closed by [exact]; proofs and non-vacuity Examples are in proofs/DeferredFacts.v.
   Layer A: theories/Deferred.v ([d_step], on top of the StorageCar model of Store.v);
   [d_trace c d_init ops] = the (state, result) pairs of a history, [d_run] its final state;
   [d_bytes] / [d_exists] = the bytes on the stream (or in the file) and whether the file exists.
   [dc_kids c = []] = the registered callbacks are ordinary ones (none calls OnPut while it fires); re-entrant
   registration is the last group of theorems.
   All configurations [c] (path / stream target, any options, WriteAsCarV1 given or not, any roots, any
   file already at the output path, ANY write-fault script of the output target) and all operation lists. *)
From GoCar Require Import Bytes Varint Cid Header Frame V2Header Index Store Deferred.
From GoCarProofs Require Import DeferredFacts.

(* lazy: as long as the history has issued no Put before its first Close, after every step nothing has
   been written and the output path is untouched: no file if there was none, otherwise the pre-existing
   file with exactly its bytes ([dc_pre c], any bytes) *)
Theorem C20_lazy :
  forall (c : dcfg) (ops : list dop),
    d_puts ops = [] ->
    Forall (fun so =>
              d_bytes c (fst so) = match dc_target c, dc_pre c with TPath, Some b => b | _, _ => [] end /\
              d_exists c (fst so) = match dc_target c, dc_pre c with TPath, Some _ => true | _, _ => false end)
           (d_trace c d_init ops).
Proof. exact lazy_init. Qed.
Print Assumptions C20_lazy.

(* identical: whenever the deferred writer has an inner writer, that writer's whole state -- file bytes,
   index, position, flags -- is the state of a DIRECT StorageCar writer opened with the same target kind,
   roots, (effective) options and fault script, fed the Puts the history made before its first Close, and finalized
   iff the history closed *)
Theorem C20_identical :
  forall (c : dcfg) (ops : list dop) (s : wstate),
    dc_kids c = [] ->
    d_inner (d_run c d_init ops) = Some s ->
    exists s0 : wstate,
      open_new (dc_kind c) (eff_opts c) (dc_nilroots c) (dc_roots c) (dc_faults c) = Ok s0 /\
      s = (let s1 := fold_left (fun s kd => fst (st_put s (fst kd) (snd kd))) (d_puts ops) s0 in
           if existsb is_close ops then fst (st_finalize s1) else s1).
Proof. exact identical_init. Qed.
Print Assumptions C20_identical.

(* ... so the observable output is exactly the direct writer's bytes WHATEVER was at the path before:
   [dc_pre c] (absent, empty, shorter or longer than the output) does not occur on the right-hand side --
   the path is opened with create+truncate, nothing of an old file survives *)
Theorem C20_output_is_direct_whatever_was_there :
  forall (c : dcfg) (ops : list dop) (s : wstate),
    dc_kids c = [] ->
    d_inner (d_run c d_init ops) = Some s ->
    exists s0 : wstate,
      open_new (dc_kind c) (eff_opts c) (dc_nilroots c) (dc_roots c) (dc_faults c) = Ok s0 /\
      d_bytes c (d_run c d_init ops)
      = ws_file (let s1 := fold_left (fun s kd => fst (st_put s (fst kd) (snd kd))) (d_puts ops) s0 in
                 if existsb is_close ops then fst (st_finalize s1) else s1).
Proof. exact output_is_direct. Qed.
Print Assumptions C20_output_is_direct_whatever_was_there.

(* the inner writer of a path target exists only once the path has been opened (created / truncated) *)
Theorem C20_file_created_with_writer :
  forall (c : dcfg) (ops : list dop),
    dc_kids c = [] ->
    d_inner (d_run c d_init ops) <> None -> dc_target c = TPath -> d_created (d_run c d_init ops) = true.
Proof. exact created_init. Qed.
Print Assumptions C20_file_created_with_writer.

(* ... and each Put answers what the direct writer answers *)
Theorem C20_put_result_is_direct :
  forall (c : dcfg) (pre : list dop) (k d : bytes) (s : wstate),
    dc_kids c = [] ->
    d_closed (d_run c d_init pre) = false -> d_inner (d_run c d_init pre) = Some s ->
    do_res (snd (d_step c (d_run c d_init pre) (DPut k d))) = snd (st_put s k d).
Proof. exact put_result_direct. Qed.
Print Assumptions C20_put_result_is_direct.

(* callbacks: the in-place-removal loop of Put terminates within its fuel, invokes every registered
   callback once in registration order and drops exactly the once-callbacks *)
Theorem C20_callback_loop :
  forall cbs : list (N * bool),
    fire cbs = Some (filter (fun cb => negb (snd cb)) cbs, map fst cbs).
Proof. exact fire_spec. Qed.
Print Assumptions C20_callback_loop.

(* callbacks along any history: the invocations of a Put are the callbacks registered so far, in order,
   without the once-callbacks that already fired (reference bookkeeping [live]); none on a closed writer *)
Theorem C20_callbacks :
  forall (c : dcfg) (pre : list dop) (k d : bytes),
    dc_kids c = [] ->
    do_log (snd (d_step c (d_run c d_init pre) (DPut k d)))
    = (if snd (fold_left live_step pre ([], false)) then []
       else map (fun cb => (fst cb, blen d)) (fst (fold_left live_step pre ([], false)))).
Proof. exact callbacks_history. Qed.
Print Assumptions C20_callbacks.

(* closed: Close closes in every state; on a closed writer Has / Put / Close answer "closed", nothing
   changes and no callback fires; and it stays so along any continuation *)
Theorem C20_close_closes :
  forall (c : dcfg) (st : dstate), d_closed (fst (d_step c st DClose)) = true.
Proof. exact close_closes. Qed.
Print Assumptions C20_close_closes.

Theorem C20_closed :
  forall (c : dcfg) (st : dstate) (op : dop),
    d_closed st = true ->
    (match op with
     | DOnPut _ _ => do_res (snd (d_step c st op)) = ONil
     | _ => d_step c st op = (st, mkdout (OErr EClosed) [])
     end) /\
    d_closed (fst (d_step c st op)) = true /\ d_inner (fst (d_step c st op)) = d_inner st /\
    d_created (fst (d_step c st op)) = d_created st /\ do_log (snd (d_step c st op)) = [].
Proof. exact closed_step. Qed.
Print Assumptions C20_closed.

Theorem C20_closed_forever :
  forall (c : dcfg) (ops : list dop) (st : dstate),
    d_closed st = true ->
    d_closed (d_run c st ops) = true /\ d_inner (d_run c st ops) = d_inner st /\
    d_created (d_run c st ops) = d_created st.
Proof. exact closed_run. Qed.
Print Assumptions C20_closed_forever.

(* closed, with write faults: for every configuration -- in particular every fault script, so also when a
   Put failed half-way and when Close's own Finalize fails -- and every history: once a Close has been
   issued (whatever it returned), every later Has / Put / Close answers "closed", no callback fires, and
   the inner writer and the file are not touched again *)
Theorem C20_closed_after_any_close :
  forall (c : dcfg) (pre post : list dop),
    d_closed (d_run c d_init (pre ++ [DClose])) = true /\
    Forall (fun x : dop * (dstate * dout) =>
              ((match fst x with
                | DOnPut _ _ => do_res (snd (snd x)) = ONil
                | _ => do_res (snd (snd x)) = OErr EClosed
                end) /\ do_log (snd (snd x)) = []) /\
              d_closed (fst (snd x)) = true /\
              d_inner (fst (snd x)) = d_inner (d_run c d_init (pre ++ [DClose])) /\
              d_created (fst (snd x)) = d_created (d_run c d_init (pre ++ [DClose])))
           (combine post (d_trace c (d_run c d_init (pre ++ [DClose])) post)).
Proof. exact closed_after_any_close. Qed.
Print Assumptions C20_closed_after_any_close.

(* ---- the BlockWriteOpener write path ([dxop]: plain ops + XOpen / XWrite / XCommit on named writers) ---------
   [dx_flatten [] ops] = the plain history an opener history amounts to: each FIRST commit of a writer is a
   Put of the bytes written to it so far; opening, writing, abandoned writers and repeated commits vanish. *)

(* the deferred writer behind any opener history is in the state of the flattened plain history: every C20
   theorem above therefore speaks about opener histories through [dx_flatten] *)
Theorem C20_opener_is_put :
  forall (c : dcfg) (ops : list dxop) (xs : dxstate),
    dx_st (dx_run c xs ops) = d_run c (dx_st xs) (dx_flatten (dx_bufs xs) ops).
Proof. exact dx_run_flatten. Qed.
Print Assumptions C20_opener_is_put.

(* a first commit fires the callbacks, returns and writes exactly what Put(key, everything written) does *)
Theorem C20_opener_commit_is_put :
  forall (c : dcfg) (xs : dxstate) (h : N) (k buf : bytes),
    buf_get h (dx_bufs xs) = Some (buf, false) ->
    dx_st (fst (dx_step c xs (XCommit h k))) = fst (d_step c (dx_st xs) (DPut k buf)) /\
    snd (dx_step c xs (XCommit h k)) = snd (d_step c (dx_st xs) (DPut k buf)).
Proof. exact dx_commit_is_put. Qed.
Print Assumptions C20_opener_commit_is_put.

(* opening a writer, writing to it and re-using a committer leave the deferred writer, the output and the
   file untouched and fire no callback: an uncommitted opener writes nothing *)
Theorem C20_opener_uncommitted_writes_nothing :
  forall (c : dcfg) (xs : dxstate) (op : dxop) (b' : dbufs),
    dx_eff (dx_bufs xs) op = (None, b') ->
    dx_st (fst (dx_step c xs op)) = dx_st xs /\ do_log (snd (dx_step c xs op)) = [] /\
    d_bytes c (dx_st (fst (dx_step c xs op))) = d_bytes c (dx_st xs) /\
    d_exists c (dx_st (fst (dx_step c xs op))) = d_exists c (dx_st xs).
Proof. exact dx_idle_step. Qed.
Print Assumptions C20_opener_uncommitted_writes_nothing.

(* lazy and identical for opener histories *)
Theorem C20_opener_lazy :
  forall (c : dcfg) (ops : list dxop),
    d_puts (dx_flatten [] ops) = [] ->
    d_bytes c (dx_st (dx_run c dx_init ops)) = pre_bytes c /\
    d_exists c (dx_st (dx_run c dx_init ops)) = pre_exists c.
Proof. exact dx_lazy. Qed.
Print Assumptions C20_opener_lazy.

Theorem C20_opener_identical :
  forall (c : dcfg) (ops : list dxop) (s : wstate),
    dc_kids c = [] ->
    d_inner (dx_st (dx_run c dx_init ops)) = Some s ->
    exists s0 : wstate,
      open_new (dc_kind c) (eff_opts c) (dc_nilroots c) (dc_roots c) (dc_faults c) = Ok s0 /\
      s = (let s1 := fold_left (fun s kd => fst (st_put s (fst kd) (snd kd))) (d_puts (dx_flatten [] ops)) s0 in
           if existsb is_close (dx_flatten [] ops) then fst (st_finalize s1) else s1) /\
      d_bytes c (dx_st (dx_run c dx_init ops)) = ws_file s.
Proof. exact dx_identical. Qed.
Print Assumptions C20_opener_identical.
