(* C06 -- a crash at any point of a writing session never resumes into corrupt state.
   Only statements closed by [exact]; proofs are in proofs/Crash*.v (on top of proofs/Resume*.v).
   Vocabulary (theories/Store.v, theories/Crash.v):
   [csess] = a session: front-end, options, roots, earlier processes [cs_pre] (each ended by Discard or
     Finalize and reopened), and the crashing process: [cs_puts] then, if [cs_fin], Finalize;
   [cs_start] = (the file the crashing process was started on, its state after OpenReadWrite /
     OpenReadableWritable, the blocks acknowledged by earlier processes);
   [cs_writes] = every underlying WriteAt / Truncate the crashing process issued, in order (the device
     log of the model; compared with the OBSERVED write sequence on every run);
   [image f0 ws k t] = f0 with the first k writes applied and the first t bytes of write k+1;
   [reopen] = OpenReadWrite / OpenReadableWritable on the image (ResumableVersion + Resume);
   [cs_done] = number of puts of the crashing process that had returned at that point;
   [crash_class] / [crash_guard] = where the crash point lies (executable). *)
From GoCar Require Import Bytes Varint Cid Header Frame V2Header Index Scan Store Crash StoreSpec Wf.
From GoCarProofs Require Import CidFacts HeaderFacts ScanFacts ResumeInv ResumeRefuted CrashTheorems CrashRefuted CrashGuarded CrashAbs.

(* (1) PARTIAL.  Crash point in the open writes of a fresh process, in the writes Resume itself issued
   (Truncate, header zeroing) when the process started by resuming, at a section boundary before
   Finalize's first write, or inside a section's length varint / CID (guard [crash_guard], executable;
   fresh or resumed process, all options, both front-ends, every k and t):
   either the reopen is refused and has left the image byte for byte as it was, or it succeeds and
   the resumed store IS the store the crashed process had after its first j puts, for a j that
   covers every put that had returned: same file, same index, same writer position -- hence it
   holds exactly the completed sections, nothing else -- and every continuation followed by
   Finalize produces the very file the crash-free continuation of that process produces. *)
Theorem C06_partial :
  forall (hdrdec : bytes -> option (list bytes * N)) (x : csess) (f0 : bytes) (start : wstate)
         (acked_pre : list (bytes * bytes)) (k : nat) (t : N),
    let o := cs_opts x in
    let hdr := enc_header (roots_opt (cs_nil x) (cs_roots x)) 1 in
    hdrdec hdr = Some (cs_roots x, 1) ->
    (exists r, hdrdec pragma_body = Some (r, 2)) ->
    blen hdr <= w_maxh o -> w_maxcid o <= max_digest_alloc ->
    match cs_kind x with KStorage false => negb (w_v1 o) | _ => false end = false ->
    51 + w_dpad o + w_ipad o + ld_size (blen hdr)
      + blen (enc_sections (concat (map fst (cs_pre x)) ++ cs_puts x)) < two63 ->
    cs_start hdrdec x = Some (f0, start, acked_pre) ->
    crash_guard x start k t = true ->
    let img := image f0 (cs_writes x start) k t in
    (exists e dv, reopen hdrdec (cs_kind x) o (cs_nil x) (cs_roots x) img = inr (e, dv) /\ d_file dv = img)
    \/
    (exists s1 j, reopen hdrdec (cs_kind x) o (cs_nil x) (cs_roots x) img = inl s1 /\
       (cs_done x start k <= j <= length (cs_puts x))%nat /\
       let sj := run_puts start (firstn j (cs_puts x)) in
       ws_file s1 = ws_file sj /\ ws_idx s1 = ws_idx sj /\ ws_pos s1 = ws_pos sj /\
       forall more, 51 + w_dpad o + w_ipad o + ws_pos sj + blen (enc_sections more) < two63 ->
         ws_file (fst (fe_finalize (run_puts s1 more))) = ws_file (fst (fe_finalize (run_puts sj more)))).
Proof. exact C06_partial_thm. Qed.
Print Assumptions C06_partial.

(* (1') THE PROPERTY, GUARDED.  The same crash points, in the property's own words.  Under C04's
   hypotheses on what is put (a key that parses at all is a CID as go-cid produces it, the section fits
   MaxAllowedSectionSize) and content addressing (blocks put under the same key carry the same
   bytes; an identity CID carries its data): the reopen is refused and the image untouched, or
   it succeeds and
   - every block whose Put had returned ([cs_acked]: in earlier processes or in the crashing one) is
     found by Has and Get returns exactly its bytes;
   - every put block the store claims to have comes back with its bytes;
   - the index holds only keys that were put;
   - continuing with ANY further puts and Finalize (known codec; C05's side conditions) answers nil
     and leaves a file that is well formed in the sense of C05 ([wf_parse], [wf_car]): its roots are
     the session's, its blocks are blocks that were put, and every acknowledged block -- of the crashed
     session and of the continuation -- is in it under its key with its exact bytes.
   Derived from (1) through the layout invariant, the C04 lemmas on ShouldPut / Has / FindCid and
   C05_wf (proofs/CrashGuarded.v). *)
Theorem C06_crash_safe_guarded :
  forall (hdrdec : bytes -> option (list bytes * N)) (x : csess) (f0 : bytes) (start : wstate)
         (acked_pre : list (bytes * bytes)) (k : nat) (t : N),
    let o := cs_opts x in
    let hdr := enc_header (roots_opt (cs_nil x) (cs_roots x)) 1 in
    let ca (all : list (bytes * bytes)) :=
      (forall b1 b2, In b1 all -> In b2 all -> same_key (w_whole o) (fst b1) (fst b2) = true -> snd b1 = snd b2) /\
      (forall b p, In b all -> cid_parse (fst b) = Some p -> is_identity p = true -> snd b = c_digest p) in
    let wellformed_put (b : bytes * bytes) :=
      cid_parse (fst b) <> None ->
      (exists p, cid_ok p /\ fst b = cid_enc p /\ blen (c_digest p) <= max_digest_alloc) /\
      blen (fst b) + blen (snd b) <= w_maxs o /\ blen (fst b) + blen (snd b) < two63 in
    hdrdec hdr = Some (cs_roots x, 1) ->
    (exists r, hdrdec pragma_body = Some (r, 2)) ->
    blen hdr <= w_maxh o -> w_maxcid o <= max_digest_alloc ->
    match cs_kind x with KStorage false => negb (w_v1 o) | _ => false end = false ->
    51 + w_dpad o + w_ipad o + ld_size (blen hdr)
      + blen (enc_sections (concat (map fst (cs_pre x)) ++ cs_puts x)) < two63 ->
    Forall wellformed_put (cs_attempted x) ->
    ca (cs_attempted x) ->
    cs_start hdrdec x = Some (f0, start, acked_pre) ->
    crash_guard x start k t = true ->
    let img := image f0 (cs_writes x start) k t in
    (exists e dv, reopen hdrdec (cs_kind x) o (cs_nil x) (cs_roots x) img = inr (e, dv) /\ d_file dv = img)
    \/
    (exists s1, reopen hdrdec (cs_kind x) o (cs_nil x) (cs_roots x) img = inl s1 /\
      (forall b, In b (cs_acked x start acked_pre k) ->
                 fe_has s1 (fst b) = OBool true /\ fe_get s1 (fst b) = OBytes (snd b)) /\
      (forall b, In b (cs_attempted x) -> fe_has s1 (fst b) = OBool true -> fe_get s1 (fst b) = OBytes (snd b)) /\
      (forall r, In r (ws_idx s1) -> exists b, In b (cs_attempted x) /\ r_cid r = fst b) /\
      (forall more,
         51 + w_dpad o + w_ipad o + ld_size (blen hdr)
           + blen (enc_sections (cs_attempted x)) + blen (enc_sections more) < two63 ->
         Forall wellformed_put more -> ca (cs_attempted x ++ more) ->
         w_v1 o = true \/ idx_new (w_codec o) <> None ->
         w_maxcid o + 8 <= max_width -> roots_ok (cs_roots x) ->
         Forall (fun b : block => blen (fst b) + blen (snd b) < 2 ^ 56) (cs_attempted x ++ more) ->
         N.of_nat (length (cs_attempted x ++ more)) < two31 ->
         blen (ws_file (fst (fe_finalize (run_puts s1 more)))) < two63 ->
         snd (fe_finalize (run_puts s1 more)) = ONil /\
         exists stored',
           wf_parse o (ws_file (fst (fe_finalize (run_puts s1 more)))) = Some (cs_roots x, stored') /\
           wf_car o (ws_file (fst (fe_finalize (run_puts s1 more)))) = true /\
           incl stored' (cs_attempted x ++ more) /\
           (forall b, In b (cs_acked x start acked_pre k) \/ In b (puts_acked s1 more) ->
              skipped_identity o b = true \/
              exists b', In b' stored' /\ same_key (w_whole o) (fst b') (fst b) = true /\ snd b' = snd b))).
Proof. exact C06_crash_safe_guarded_thm. Qed.
Print Assumptions C06_crash_safe_guarded.

(* (1a) CLASS resume-phase: the crash happens while the process is itself resuming -- inside the
   writes Resume issues on an existing file (Truncate at DataOffset+DataSize, then the zeroed CARv2
   header in two WriteAt calls).  For every history of earlier processes, every such crash point
   (k, t) and torn image: the point is inside the guard of (1)/(1'), and the SECOND resume either is
   refused with the image byte for byte untouched, or yields the state the first resume was
   building: file, index and writer position of [start]; no put of the crashing process exists yet
   ([cs_acked] = the blocks acknowledged by earlier processes); and its abstract map (C04's
   [StoreSpec.abs]: the blocks the store holds, the closed and finalized flags) is the
   specification's map ([Wf.spec_stored]: ShouldPut folded over a put history, one Put per block)
   of exactly those acknowledged puts. *)
Theorem C06_resume_phase :
  forall (hdrdec : bytes -> option (list bytes * N)) (x : csess) (f0 : bytes) (start : wstate)
         (acked_pre : list (bytes * bytes)) (k : nat) (t : N),
    let o := cs_opts x in
    let hdr := enc_header (roots_opt (cs_nil x) (cs_roots x)) 1 in
    let wellformed_put (b : bytes * bytes) :=
      cid_parse (fst b) <> None ->
      (exists p, cid_ok p /\ fst b = cid_enc p /\ blen (c_digest p) <= max_digest_alloc) /\
      blen (fst b) + blen (snd b) <= w_maxs o /\ blen (fst b) + blen (snd b) < two63 in
    let spec (L : list (bytes * bytes)) :=
      spec_stored (cs_kind x) o (roots_opt (cs_nil x) (cs_roots x)) (map (fun b => [b]) L) in
    hdrdec hdr = Some (cs_roots x, 1) ->
    (exists r, hdrdec pragma_body = Some (r, 2)) ->
    blen hdr <= w_maxh o -> w_maxcid o <= max_digest_alloc ->
    match cs_kind x with KStorage false => negb (w_v1 o) | _ => false end = false ->
    51 + w_dpad o + w_ipad o + ld_size (blen hdr)
      + blen (enc_sections (concat (map fst (cs_pre x)) ++ cs_puts x)) < two63 ->
    Forall wellformed_put (cs_attempted x) ->
    cs_start hdrdec x = Some (f0, start, acked_pre) ->
    crash_class x start k t = CResume ->
    let img := image f0 (cs_writes x start) k t in
    crash_guard x start k t = true /\
    ((exists e dv, reopen hdrdec (cs_kind x) o (cs_nil x) (cs_roots x) img = inr (e, dv) /\ d_file dv = img)
     \/
     (exists s1, reopen hdrdec (cs_kind x) o (cs_nil x) (cs_roots x) img = inl s1 /\
        ws_file s1 = ws_file start /\ ws_idx s1 = ws_idx start /\ ws_pos s1 = ws_pos start /\
        cs_acked x start acked_pre k = acked_pre /\
        StoreSpec.abs s1 = mkm (spec acked_pre) false false /\
        StoreSpec.abs s1 = StoreSpec.abs start)).
Proof. exact C06_resume_phase_thm. Qed.
Print Assumptions C06_resume_phase.

(* (1b) the abstract map at EVERY guarded crash point (open, resume-phase, section boundary, inside
   a section head): refused untouched, or the resumed store's abstract map is the specification's map
   of the acknowledged puts -- those of the earlier processes and the first j puts of the crashing
   one, where j covers every put that had returned (a put in flight whose section is completely in
   the image counts as well) -- and equals the abstract map the crashed process had after j puts. *)
Theorem C06_abstract_map :
  forall (hdrdec : bytes -> option (list bytes * N)) (x : csess) (f0 : bytes) (start : wstate)
         (acked_pre : list (bytes * bytes)) (k : nat) (t : N),
    let o := cs_opts x in
    let hdr := enc_header (roots_opt (cs_nil x) (cs_roots x)) 1 in
    let wellformed_put (b : bytes * bytes) :=
      cid_parse (fst b) <> None ->
      (exists p, cid_ok p /\ fst b = cid_enc p /\ blen (c_digest p) <= max_digest_alloc) /\
      blen (fst b) + blen (snd b) <= w_maxs o /\ blen (fst b) + blen (snd b) < two63 in
    let spec (L : list (bytes * bytes)) :=
      spec_stored (cs_kind x) o (roots_opt (cs_nil x) (cs_roots x)) (map (fun b => [b]) L) in
    hdrdec hdr = Some (cs_roots x, 1) ->
    (exists r, hdrdec pragma_body = Some (r, 2)) ->
    blen hdr <= w_maxh o -> w_maxcid o <= max_digest_alloc ->
    match cs_kind x with KStorage false => negb (w_v1 o) | _ => false end = false ->
    51 + w_dpad o + w_ipad o + ld_size (blen hdr)
      + blen (enc_sections (concat (map fst (cs_pre x)) ++ cs_puts x)) < two63 ->
    Forall wellformed_put (cs_attempted x) ->
    cs_start hdrdec x = Some (f0, start, acked_pre) ->
    crash_guard x start k t = true ->
    let img := image f0 (cs_writes x start) k t in
    (exists e dv, reopen hdrdec (cs_kind x) o (cs_nil x) (cs_roots x) img = inr (e, dv) /\ d_file dv = img)
    \/
    (exists s1 j, reopen hdrdec (cs_kind x) o (cs_nil x) (cs_roots x) img = inl s1 /\
       (cs_done x start k <= j <= length (cs_puts x))%nat /\
       StoreSpec.abs s1 = mkm (spec (acked_pre ++ puts_acked start (firstn j (cs_puts x)))) false false /\
       StoreSpec.abs s1 = StoreSpec.abs (run_puts start (firstn j (cs_puts x)))).
Proof. exact C06_abstract_map_thm. Qed.
Print Assumptions C06_abstract_map.

(* (1c) the continuation, through C05: at every guarded crash point, continuing the resumed store
   with ANY further puts and Finalize (known index codec) answers nil and leaves THE FILE OF A
   CRASH-FREE SESSION ([Wf.session], the subject of every C05 theorem) whose puts were all put by
   the crashed session or the continuation; in particular (C05_inspect_accepts) the library's own
   Inspect accepts it under any reader limits the header and the blocks fit in, with or without
   hash validation.  (The run-time check evaluates the executable [wf_final] and the real Inspect
   on the same files; this is their proved counterpart, (1') has the [wf_parse]/[wf_car] form.) *)
Theorem C06_continuation :
  forall (hok : bytes -> bytes -> option bool) (hdrdec : bytes -> option (list bytes * N)) (x : csess)
         (f0 : bytes) (start : wstate) (acked_pre : list (bytes * bytes)) (k : nat) (t : N),
    let o := cs_opts x in
    let hdr := enc_header (roots_opt (cs_nil x) (cs_roots x)) 1 in
    hdrdec hdr = Some (cs_roots x, 1) ->
    hdrdec pragma_body = Some ([], 2) ->
    blen hdr <= w_maxh o -> w_maxcid o <= max_digest_alloc ->
    match cs_kind x with KStorage false => negb (w_v1 o) | _ => false end = false ->
    51 + w_dpad o + w_ipad o + ld_size (blen hdr)
      + blen (enc_sections (concat (map fst (cs_pre x)) ++ cs_puts x)) < two63 ->
    cs_start hdrdec x = Some (f0, start, acked_pre) ->
    crash_guard x start k t = true ->
    let img := image f0 (cs_writes x start) k t in
    (exists e dv, reopen hdrdec (cs_kind x) o (cs_nil x) (cs_roots x) img = inr (e, dv) /\ d_file dv = img)
    \/
    (exists s1, reopen hdrdec (cs_kind x) o (cs_nil x) (cs_roots x) img = inl s1 /\
      forall (more : list (bytes * bytes)) (r : ropts) (validate : bool),
        let file := ws_file (fst (fe_finalize (run_puts s1 more))) in
        51 + w_dpad o + w_ipad o + ld_size (blen hdr)
          + blen (enc_sections (cs_attempted x)) + blen (enc_sections more) < two63 ->
        w_v1 o = true \/ idx_new (w_codec o) <> None ->
        snd (fe_finalize (run_puts s1 more)) = ONil /\
        (exists h sF outs,
           session (cs_kind x) o (cs_nil x) (cs_roots x) h = Ok (sF, outs, ONil) /\ ws_file sF = file /\
           incl (concat h) (cs_attempted x ++ more)) /\
        (w_maxcid o + 8 <= max_width ->
         Forall (fun b : block => blen (fst b) + blen (snd b) < 2 ^ 56) (cs_attempted x ++ more) ->
         blen file < two63 ->
         blen hdr <= o_maxh r ->
         Forall (fun b : block => blen (fst b) + blen (snd b) <= o_maxs r) (cs_attempted x ++ more) ->
         (validate = true -> Forall (hash_good hok) (cs_attempted x ++ more)) ->
         inspect_check hok hdrdec r validate file = Ok tt)).
Proof. exact C06_continuation_thm. Qed.
Print Assumptions C06_continuation.

(* (2) after the last write of the process (in particular after the last header byte of Finalize):
   the reopen succeeds and yields the store with all the puts. *)
Theorem C06_header_complete :
  forall (hdrdec : bytes -> option (list bytes * N)) (x : csess) (f0 : bytes) (start : wstate)
         (acked_pre : list (bytes * bytes)) (k : nat) (t : N),
    let o := cs_opts x in
    let hdr := enc_header (roots_opt (cs_nil x) (cs_roots x)) 1 in
    hdrdec hdr = Some (cs_roots x, 1) ->
    (exists r, hdrdec pragma_body = Some (r, 2)) ->
    blen hdr <= w_maxh o -> w_maxcid o <= max_digest_alloc ->
    match cs_kind x with KStorage false => negb (w_v1 o) | _ => false end = false ->
    51 + w_dpad o + w_ipad o + ld_size (blen hdr)
      + blen (enc_sections (concat (map fst (cs_pre x)) ++ cs_puts x)) < two63 ->
    cs_start hdrdec x = Some (f0, start, acked_pre) ->
    (loglen (cs_end x start) <= k)%nat ->
    let img := image f0 (cs_writes x start) k t in
    exists s1 j, reopen hdrdec (cs_kind x) o (cs_nil x) (cs_roots x) img = inl s1 /\
       (length (cs_puts x) <= j <= length (cs_puts x))%nat /\
       let sj := run_puts start (firstn j (cs_puts x)) in
       ws_file s1 = ws_file sj /\ ws_idx s1 = ws_idx sj /\ ws_pos s1 = ws_pos sj /\
       forall more, 51 + w_dpad o + w_ipad o + ws_pos sj + blen (enc_sections more) < two63 ->
         ws_file (fst (fe_finalize (run_puts s1 more))) = ws_file (fst (fe_finalize (run_puts sj more))).
Proof. exact C06_header_complete_thm. Qed.
Print Assumptions C06_header_complete.

(* (3) THE FULL STATEMENT IS FALSE of the code.  Written out: for every session and EVERY crash
   point (no guard) -- refused with every acknowledged section still in the file, or resumed into a
   store that has every acknowledged block with its bytes, returns the put bytes for every put
   block it claims to have, indexes only keys that were put, and after any further Put and
   Finalize is a well-formed archive ([wf_final]) holding them -- is refuted. *)
Theorem C06_crash_safe_refuted :
  ~ (forall hdrdec x f0 start acked_pre k t,
       params_ok hdrdec (cs_opts x) (cs_nil x) (cs_roots x) -> kind_ok (cs_kind x) (cs_opts x) ->
       budget (cs_opts x) (cs_nil x) (cs_roots x) [] (concat (map fst (cs_pre x)) ++ cs_puts x) ->
       cs_start hdrdec x = Some (f0, start, acked_pre) ->
       let o := cs_opts x in
       let img := image f0 (cs_writes x start) k t in
       match reopen hdrdec (cs_kind x) o (cs_nil x) (cs_roots x) img with
       | inr (_, dv) =>
           let lim := data_base o + ws_pos (run_puts start (firstn (cs_done x start k) (cs_puts x))) in
           drop (data_base o) (take lim (d_file dv)) = drop (data_base o) (take lim img)
       | inl s1 =>
           (forall b, In b (cs_acked x start acked_pre k) ->
                      fe_has s1 (fst b) = OBool true /\ fe_get s1 (fst b) = OBytes (snd b)) /\
           (forall b, In b (cs_attempted x) -> fe_has s1 (fst b) = OBool true -> fe_get s1 (fst b) = OBytes (snd b)) /\
           (forall r, In r (ws_idx s1) -> exists b, In b (cs_attempted x) /\ r_cid r = fst b) /\
           (forall xb, snd (fe_put s1 xb) = ONil ->
              snd (fe_finalize (fst (fe_put s1 xb))) = ONil /\
              wf_final hdrdec o (cs_roots x) (xb :: cs_attempted x)
                       (filter (fun b => negb (skipped_identity o b)) (xb :: cs_acked x start acked_pre k))
                       (ws_file (fst (fe_finalize (fst (fe_put s1 xb))))) = true)
       end).
Proof. exact crash_safe_refuted. Qed.
Print Assumptions C06_crash_safe_refuted.

(* the three ways it fails, one witness each on the session [c6_sess] (blockstore, default options,
   two puts, Finalize); replayed on the real library: corpus/C06/kf-*.case *)

(* (3a) torn data write: the torn block is indexed, Get does not return its bytes *)
Theorem C06_torn_data_refuted :
  exists f0 start acked k t s1,
    cs_start dec_header_canon c6_sess = Some (f0, start, acked) /\
    pt_of_units (cs_writes c6_sess start) 107 = (k, t) /\
    crash_class c6_sess start k t = CData /\
    reopen dec_header_canon KBlockstore wit_opts false [c6_root] (image f0 (cs_writes c6_sess start) k t) = inl s1 /\
    In (c6_c1, c6_d1) (cs_attempted c6_sess) /\
    fe_has s1 c6_c1 = OBool true /\ fe_get s1 c6_c1 <> OBytes c6_d1.
Proof. exact torn_data_refuted. Qed.
Print Assumptions C06_torn_data_refuted.

(* (3b) index written, header not: the index bytes are parsed as a section; a key nobody put *)
Theorem C06_index_before_header_refuted :
  exists f0 start acked k t s1 r,
    cs_start dec_header_canon c6_sess = Some (f0, start, acked) /\
    pt_of_units (cs_writes c6_sess start) 402 = (k, t) /\
    crash_class c6_sess start k t = CIndex /\
    reopen dec_header_canon KBlockstore wit_opts false [c6_root] (image f0 (cs_writes c6_sess start) k t) = inl s1 /\
    In r (ws_idx s1) /\ forall b, In b (cs_attempted c6_sess) -> r_cid r <> fst b.
Proof. exact index_before_header_refuted. Qed.
Print Assumptions C06_index_before_header_refuted.

(* (3c) torn 24-byte header write: the header validates with a DataSize of which only the low byte
   is on disk; Resume truncates the file inside an acknowledged block (546 -> 180 bytes), then fails *)
Theorem C06_torn_header_refuted :
  exists f0 start acked k t e dv,
    cs_start dec_header_canon c6_sess = Some (f0, start, acked) /\
    pt_of_units (cs_writes c6_sess start) 531 = (k, t) /\
    crash_class c6_sess start k t = CHeader /\
    cs_done c6_sess start k = 2%nat /\
    let img := image f0 (cs_writes c6_sess start) k t in
    reopen dec_header_canon KBlockstore wit_opts false [c6_root] img = inr (e, dv) /\
    blen (d_file dv) = 180 /\ blen img = 546 /\
    let lim := data_base wit_opts + ws_pos (run_puts start (cs_puts c6_sess)) in
    drop (data_base wit_opts) (take lim (d_file dv)) <> drop (data_base wit_opts) (take lim img).
Proof. exact torn_header_refuted. Qed.
Print Assumptions C06_torn_header_refuted.
