(* C17 -- `car extract` never writes outside the chosen output directory.
   Only statements closed by [exact]; the model is theories/ExtractFs.v, proofs in proofs/ExtractFs*.v.

   extract_cmd true  = cmd/car/extract.go ExtractCar + lib.ExtractToDir/extractDir/extractFile with
                       the delivered fix (notes/fixes/C17-extract-symlink-leaf.patch);
   extract_cmd false = the code before the fix.
   [fs] is any file system (finite map physical path -> Dir | File | Link), [cwd] the working
   directory, [outdir] the output directory argument (any string), [pathflag] the --path value,
   [roots] any forest of UnixFS trees with arbitrary entry names (any bytes: separators, dot-dot,
   empty, absolute, NUL, over-long), symlink entries with arbitrary targets, repeated names,
   missing and undecodable blocks, raw roots. *)
From GoCar Require Import Bytes ExtractFs.
From GoCarProofs Require Import ExtractFsCmd ExtractFsExamples ExtractFsKernel ExtractFsRoundTrip.

(* Containment.  Whatever the archive and whatever already is in the file system, every physical
   path that is not the resolved output directory or below it is mapped to exactly what it was
   mapped to before: nothing outside is created, modified or deleted. *)
Theorem C17_extract_changes_nothing_outside_the_output_directory :
  forall fs cwd outdir pathflag roots root fs' res,
    (forall k, look fs (Nat.iter k (@removelast name) cwd) = Some NDir) ->
    eval_symlinks_str fs cwd outdir = Some root ->
    extract_cmd true fs cwd outdir pathflag roots = (fs', res) ->
    forall p, ~ under (phys_of cwd root) p -> look fs' p = look fs p.
Proof. exact extract_cmd_contained. Qed.
Print Assumptions C17_extract_changes_nothing_outside_the_output_directory.

(* If the output directory argument does not resolve, nothing at all is written. *)
Theorem C17_no_output_directory_nothing_written :
  forall fs cwd outdir pathflag roots fs' res,
    eval_symlinks_str fs cwd outdir = None ->
    extract_cmd true fs cwd outdir pathflag roots = (fs', res) -> fs' = fs.
Proof. exact extract_cmd_no_dir. Qed.
Print Assumptions C17_no_output_directory_nothing_written.

(* Anywhere (inside the output directory too): no existing object is removed, changes its kind,
   or -- for symbolic links -- its target; only regular files may get new contents. *)
Theorem C17_extract_never_removes_or_retypes :
  forall fs cwd outdir pathflag roots root fs' res,
    (forall k, look fs (Nat.iter k (@removelast name) cwd) = Some NDir) ->
    eval_symlinks_str fs cwd outdir = Some root ->
    extract_cmd true fs cwd outdir pathflag roots = (fs', res) ->
    forall p n, look fs p = Some n ->
      match n with
      | NDir => look fs' p = Some NDir
      | NLink t => look fs' p = Some (NLink t)
      | NFile _ => exists d, look fs' p = Some (NFile d)
      end.
Proof. exact extract_cmd_preserves_spelled. Qed.
Print Assumptions C17_extract_never_removes_or_retypes.

(* The directory the theorem speaks of is a real one: what the argument resolves to exists, is
   not a symbolic link, and all its ancestors down from "/" (or from the ancestor of the working
   directory a relative argument climbs to) are directories, not links. *)
Theorem C17_resolved_output_directory_is_real :
  forall fs cwd outdir root,
    eval_symlinks_str fs cwd outdir = Some root ->
    n_names root = [] \/
    ((exists n, look fs (phys_of cwd root) = Some n /\ (forall t, n <> NLink t)) /\
     (forall k, (0 < k < length (n_names root))%nat ->
        look fs ((if n_abs root then [] else Nat.iter (n_ups root) (@removelast name) cwd)
                 ++ firstn k (n_names root)) = Some NDir)).
Proof. exact outdir_is_real. Qed.
Print Assumptions C17_resolved_output_directory_is_real.

(* The code before the fix violates containment (DESIGN section 6 #13): a directory with a symlink
   entry followed by a file entry of the same name makes os.Create follow the link. *)
Theorem C17_unpatched_extract_refuted :
  exists fs cwd outdir pathflag roots root p,
    (forall k, look fs (Nat.iter k (@removelast name) cwd) = Some NDir) /\
    eval_symlinks_str fs cwd outdir = Some root /\
    ~ under (phys_of cwd root) p /\
    look (fst (extract_cmd false fs cwd outdir pathflag roots)) p <> look fs p.
Proof. exact unfixed_refuted. Qed.
Print Assumptions C17_unpatched_extract_refuted.

(* ... and it is the directory the kernel itself reaches for that argument: stat(2)-style
   resolution of the string (following every symbolic link, from "/" or the working directory)
   ends at the same physical path, unless the kernel gives up with ELOOP (its limit of 40 links is
   lower than EvalSymlinks' 255).  [klinks] is the kernel's link budget; no link has an empty
   target (symlink(2) refuses to create one). *)
Theorem C17_resolved_output_directory_is_where_the_kernel_goes :
  forall fs cwd outdir root klinks,
    (forall p, look fs p <> Some (NLink [])) ->
    eval_symlinks_str fs cwd outdir = Some root ->
    kwalk klinks fs true (k_start cwd (is_abs outdir)) (split_slash outdir)
      = KOk (phys_of cwd root) (look fs (phys_of cwd root)) \/
    kwalk klinks fs true (k_start cwd (is_abs outdir)) (split_slash outdir) = KErr ELOOP.
Proof. exact eval_symlinks_is_kernel_resolution. Qed.
Print Assumptions C17_resolved_output_directory_is_where_the_kernel_goes.

(* Metadata.  The extraction makes no chmod/chown/utimes call: in the model the permission-bit
   table [m] is not an argument of any operation.  Consequently the bits of every object outside
   the output directory are what they were (an object there is neither created nor removed, and
   keeps its kind), and so are the bits of every object that existed before, anywhere; objects the
   extraction creates get the creation defaults (mode_of / default_mode).  The correspondence check
   compares the bits of every sandbox entry, inside and outside. *)
Theorem C17_permission_bits_outside_unchanged :
  forall fs cwd outdir pathflag roots root fs' res,
    (forall k, look fs (Nat.iter k (@removelast name) cwd) = Some NDir) ->
    eval_symlinks_str fs cwd outdir = Some root ->
    extract_cmd true fs cwd outdir pathflag roots = (fs', res) ->
    forall (m : modes) p, ~ under (phys_of cwd root) p -> mode_of m fs' p = mode_of m fs p.
Proof. exact modes_outside_unchanged. Qed.
Print Assumptions C17_permission_bits_outside_unchanged.

Theorem C17_permission_bits_of_existing_objects_unchanged :
  forall fs cwd outdir pathflag roots root fs' res,
    (forall k, look fs (Nat.iter k (@removelast name) cwd) = Some NDir) ->
    eval_symlinks_str fs cwd outdir = Some root ->
    extract_cmd true fs cwd outdir pathflag roots = (fs', res) ->
    forall (m : modes) p, look fs p <> None -> mode_of m fs' p = mode_of m fs p.
Proof. exact modes_of_existing_objects_unchanged. Qed.
Print Assumptions C17_permission_bits_of_existing_objects_unchanged.

(* The command with ANY output argument (extract_main = ExtractCar).  With "-" the contents go to
   standard output and the file system is not touched at all (no file-system call is made in that
   mode); with any other argument nothing is written to standard output and containment holds. *)
Theorem C17_extract_main_stdout_mode_touches_nothing_else_contained :
  forall fs cwd outdir pathflag roots fs' out res,
    (forall k, look fs (Nat.iter k (@removelast name) cwd) = Some NDir) ->
    extract_main true fs cwd outdir pathflag roots = (fs', out, res) ->
    (outdir = s_dash -> fs' = fs) /\
    (outdir <> s_dash ->
     out = [] /\
     forall root, eval_symlinks_str fs cwd outdir = Some root ->
       forall p, ~ under (phys_of cwd root) p -> look fs' p = look fs p).
Proof. exact extract_main_contained. Qed.
Print Assumptions C17_extract_main_stdout_mode_touches_nothing_else_contained.

(* Modification times.  A regular file's mtime changes when it is written, a directory's when an
   entry is added to or removed from it.  Outside the output directory no path is written
   (containment: its binding, contents included, is what it was) and every directory there lists the
   same entries as before, the parent of the output directory included; the extraction calls no
   utimes.  The correspondence check gives every sandbox entry a known mtime before the run and
   compares, for every file and directory outside the output directory, whether it is still that. *)
Theorem C17_entries_of_outside_directories_unchanged :
  forall fs cwd outdir pathflag roots root fs' res,
    (forall k, look fs (Nat.iter k (@removelast name) cwd) = Some NDir) ->
    eval_symlinks_str fs cwd outdir = Some root ->
    extract_cmd true fs cwd outdir pathflag roots = (fs', res) ->
    forall q c, ~ under (phys_of cwd root) q ->
      (look fs' (q ++ [c]) = None <-> look fs (q ++ [c]) = None).
Proof. exact outside_directory_entries_unchanged. Qed.
Print Assumptions C17_entries_of_outside_directories_unchanged.
