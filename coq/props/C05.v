(* C05 -- finalized output is a well-formed, self-describing CAR that matches what was put.
   Statements only; each is closed by [exact] with a lemma of proofs/Final*.v.

   Vocabulary (theories/Wf.v, Store.v, Index.v):
     session k o nilroots roots h   open on an empty file, the put calls of history h (a list of batches:
                                    one PutMany per batch on blockstore.ReadWrite, one Put per block on
                                    storage.StorageCar / the deferred writer), Finalize; no write faults
     spec_stored k o ro h           the de-duplicated puts in order (layer B; the per-block decision is the
                                    library's ShouldPut on the index of what is stored so far)
     wf_parse o file                layer-B well-formedness: pragma, header arithmetic, zero paddings, the
                                    payload decodes with the reference decoder, the index read by idx_read
                                    ends the file, has the chosen codec and resolves exactly the sections,
                                    fully-indexed flag = StoreIdentityCIDs; returns (roots, blocks)
     inspect_check / verify_check   models of Reader.Inspect and cmd/car/lib.VerifyCar (Ok tt = no error)
   Oracles are universally quantified function arguments with explicit hypotheses (hash function verdicts
   hok, CBOR header decoder hdrdec). *)
From GoCar Require Import Bytes Varint Cid Header Frame V2Header Scan Index Store Wf.
From Coq Require Import Sorting.Permutation.
From GoCar Require Import Transform Deferred.
From GoCar Require Traversal.
From GoCarProofs Require TraversalV2 ResumeFacts CrashGuarded.
From GoCar Require Import Crash.
From GoCarProofs Require Import FinalResume.
From GoCarProofs Require Import CidFacts HeaderFacts ScanFacts FinalStore FinalWf FinalWide FinalMain FinalProducers FinalExamples.
From GoCarProofs Require TransformWrap.

(* util.LdWrite writes the section length into an 8-byte varint buffer and panics for sections of 2^56 bytes
   or more; the model does not reproduce the panic.  The theorems about sessions therefore take the executable
   guard [history_ok h = true] (every offered block: |cid| + |data| < 2^56).  Every block a Go program can hold
   meets it: *)
Theorem C05_ldwrite_guard_realistic :
  forall b : block, blen (fst b) <= 2 ^ 25 -> blen (snd b) <= 2 ^ 50 -> ld_write_ok b = true.
Proof. exact ld_write_ok_realistic. Qed.
Print Assumptions C05_ldwrite_guard_realistic.

(* The file after Finalize, byte for byte, for every front-end, option row and put history (including none):
   pragma, the 40-byte header with data offset 51 + data padding, data size = payload length, index
   offset = end of payload + index padding, fully-indexed bit iff identity CIDs are stored, zero paddings,
   the payload = CARv1 header with the given roots + the stored sections in put order, the flattened
   index; in CARv1 mode exactly the payload. *)
Theorem C05_layout :
  forall (k : skind) (o : wopts) (nilroots : bool) (roots : list bytes) (h : list batch) (fi : index),
  let ro := roots_opt nilroots roots in
  let stored := spec_stored k o ro h in
  let payload := ld (enc_header ro 1) ++ enc_sections stored in
  51 + w_dpad o + w_ipad o < two64 ->
  (k = KStorage false -> w_v1 o = true) ->
  history_ok h = true ->
  51 + w_dpad o + blen payload + w_ipad o < two64 ->
  (w_v1 o = false ->
   ii_flatten (w_codec o) (ii_load (records_from (ld_size (blen (enc_header ro 1))) stored) []) = Some fi) ->
  exists s outs,
    session k o nilroots roots h = Ok (s, outs, ONil) /\
    ws_file s =
      if w_v1 o then payload
      else pragma ++
           enc_v2hdr (mkv2 (if w_storeid o then 128 else 0) 0 (51 + w_dpad o) (blen payload)
                           (51 + w_dpad o + blen payload + w_ipad o)) ++
           zerosN (w_dpad o) ++ payload ++ zerosN (w_ipad o) ++ idx_write fi.
Proof. exact c05_layout_guarded. Qed.
Print Assumptions C05_layout.

(* what the code rejects: an index codec it does not know -- Finalize errors, the header stays zeroed *)
Theorem C05_unknown_codec_rejected :
  forall (k : skind) (o : wopts) (nilroots : bool) (roots : list bytes) (h : list batch),
  let ro := roots_opt nilroots roots in
  let stored := spec_stored k o ro h in
  51 + w_dpad o + w_ipad o < two64 ->
  (k = KStorage false -> w_v1 o = true) -> w_v1 o = false ->
  idx_new (w_codec o) = None ->
  exists s outs,
    session k o nilroots roots h = Ok (s, outs, OErr EOther) /\
    ws_file s = pragma ++ zerosN (40 + w_dpad o) ++ ld (enc_header ro 1) ++ enc_sections stored.
Proof. exact c05_unknown_codec. Qed.
Print Assumptions C05_unknown_codec_rejected.

(* ... and a CARv2 on a plain io.Writer *)
Theorem C05_stream_v2_refused :
  forall (o : wopts) (nilroots : bool) (roots : list bytes) (h : list batch),
  w_v1 o = false -> session (KStorage false) o nilroots roots h = Err EOther.
Proof. exact session_stream_v2_refused. Qed.
Print Assumptions C05_stream_v2_refused.

(* Every successfully finalized file is well-formed and carries exactly the given roots and the stored
   blocks: the index resolves exactly those sections -- under ANY options: [apply_wopts] is
   carv2.ApplyOptions (defaults for zero values; MaxIndexCidSize capped at what an index record can hold,
   fix C05-cap-max-index-cid-size).  Hypotheses: the roots are CIDs as go-cid produces them
   (for block keys this is not a hypothesis: the stores parse every key and what go-cid parses is canonical,
   proofs/FinalCid.v), sections LdWrite can frame,
   sizes within Go's int64 file offsets, fewer than 2^31 distinct hash codes for the multihash codec. *)
Theorem C05_wf :
  forall (k : skind) (o0 : wopts) (nilroots : bool) (roots : list bytes) (h : list batch) s outs,
  let o := apply_wopts o0 in
  let ro := roots_opt nilroots roots in
  let stored := spec_stored k o ro h in
  session k o nilroots roots h = Ok (s, outs, ONil) ->
  51 + w_dpad o + w_ipad o < two64 -> w_ipad o < two63 ->
  roots_ok roots ->
  history_ok h = true ->
  blen (ws_file s) < two63 ->
  (w_v1 o = false -> w_codec o = codec_mh_sorted ->
   N.of_nat (length (group_by r_code (ii_load (records_from (ld_size (blen (enc_header ro 1))) stored) []))) < two31) ->
  wf_parse o (ws_file s) = Some (roots, stored) /\ wf_car o (ws_file s) = true.
Proof. exact c05_wf_guarded. Qed.
Print Assumptions C05_wf.

(* ... because a CID whose digest does not fit an index record (32 MiB wide: digest + 8-byte offset) is never
   stored, whatever MaxIndexCidSize the caller asked for (before the fix it was stored, Finalize wrote the index
   and returned nil, and index.ReadFrom refused the file: corpus/C05/wide-digest.case) *)
Theorem C05_wide_cid_never_stored :
  forall (o0 : wopts) (ii : iidx) (c : bytes) (p : cidp),
  cid_parse c = Some p -> max_width < blen (c_digest p) + 8 ->
  should_put (apply_wopts o0) ii c p <> Ok true.
Proof. exact wide_cid_never_stored. Qed.
Print Assumptions C05_wide_cid_never_stored.

(* the decision the check evaluates for CIDs too large to ship as case data is ShouldPut on an empty index *)
Theorem C05_first_put_decision :
  forall (o : wopts) (c : bytes) (p : cidp),
  should_put o [] c p = should_put_first o (blen c) (is_identity p).
Proof. exact should_put_first_eq. Qed.
Print Assumptions C05_first_put_decision.

(* The library's own inspection accepts it (with and without block-hash validation, under any reader
   limits the content respects). *)
Theorem C05_inspect_accepts :
  forall (hok : bytes -> bytes -> option bool) (hdrdec : bytes -> option (list bytes * N))
         (k : skind) (o0 : wopts) (nilroots : bool) (roots : list bytes) (h : list batch) s outs
         (r : ropts) (validate : bool),
  let o := apply_wopts o0 in
  let ro := roots_opt nilroots roots in
  session k o nilroots roots h = Ok (s, outs, ONil) ->
  51 + w_dpad o + w_ipad o < two64 -> w_ipad o < two63 ->
  history_ok h = true ->
  blen (ws_file s) < two63 ->
  hdrdec pragma_body = Some ([], 2) -> hdrdec (enc_header ro 1) = Some (roots, 1) ->
  blen (enc_header ro 1) <= o_maxh r ->
  Forall (Forall (fun b : block => blen (fst b) + blen (snd b) <= o_maxs r)) h ->
  (validate = true -> Forall (Forall (hash_good hok)) h) ->
  inspect_check hok hdrdec r validate (ws_file s) = Ok tt.
Proof. exact c05_inspect_accepts_guarded. Qed.
Print Assumptions C05_inspect_accepts.

(* The verifier accepts it whenever every root is among the stored blocks -- and there is a root: *)
Theorem C05_verify_accepts_partial :
  forall (hok : bytes -> bytes -> option bool) (hdrdec : bytes -> option (list bytes * N))
         (k : skind) (o0 : wopts) (nilroots : bool) (roots : list bytes) (h : list batch) s outs,
  let o := apply_wopts o0 in
  let ro := roots_opt nilroots roots in
  let stored := spec_stored k o ro h in
  session k o nilroots roots h = Ok (s, outs, ONil) ->
  51 + w_dpad o + w_ipad o < two64 -> w_ipad o < two63 ->
  history_ok h = true ->
  blen (ws_file s) < two63 ->
  (w_v1 o = false -> w_codec o = codec_mh_sorted ->
   N.of_nat (length (group_by r_code (ii_load (records_from (ld_size (blen (enc_header ro 1))) stored) []))) < two31) ->
  hdrdec pragma_body = Some ([], 2) -> hdrdec (enc_header ro 1) = Some (roots, 1) ->
  blen (enc_header ro 1) <= o_maxh default_ropts ->
  Forall (Forall (fun b : block => blen (fst b) + blen (snd b) <= o_maxs default_ropts)) h ->
  Forall (Forall (hash_good hok)) h ->
  incl roots (map fst stored) ->
  roots <> [] ->
  verify_check hok hdrdec (ws_file s) = Ok tt.
Proof. exact c05_verify_accepts_partial_guarded. Qed.
Print Assumptions C05_verify_accepts_partial.

(* ... the guard [roots <> []] cannot be dropped: VerifyCar refuses every archive without roots
   ("no roots listed in car header"), although no root is missing from the blocks; the same file is
   well-formed and passes Inspect.  Witness: blockstore, default options, no roots, one block
   (corpus/C05/verify-no-roots.case). *)
Theorem C05_verify_accepts_refuted :
  exists (k : skind) (o : wopts) (nilroots : bool) (roots : list bytes) (h : list batch) s outs,
    session k (apply_wopts o) nilroots roots h = Ok (s, outs, ONil) /\
    51 + w_dpad o + w_ipad o < two64 /\ w_ipad o < two63 /\
    Forall (Forall (fun b : block => blen (fst b) + blen (snd b) < 2 ^ 56)) h /\
    blen (ws_file s) < two63 /\
    dec_header_canon pragma_body = Some ([], 2) /\
    dec_header_canon (enc_header (roots_opt nilroots roots) 1) = Some (roots, 1) /\
    Forall (Forall (fun b : block => blen (fst b) + blen (snd b) <= o_maxs default_ropts)) h /\
    Forall (Forall (hash_good ex_hok)) h /\
    incl roots (map fst (spec_stored k (apply_wopts o) (roots_opt nilroots roots) h)) /\
    wf_car (apply_wopts o) (ws_file s) = true /\
    inspect_check ex_hok dec_header_canon default_ropts true (ws_file s) = Ok tt /\
    verify_check ex_hok dec_header_canon (ws_file s) = Err EOther.
Proof. exact verify_no_roots_refuted. Qed.
Print Assumptions C05_verify_accepts_refuted.

(* ... and that is the whole of the finding: for EVERY finalized archive without roots the file is well-formed
   with exactly the stored blocks, Inspect accepts it, and the verifier's verdict is the root test it makes right
   after reading the header -- no other clause fails behind it. *)
Theorem C05_no_roots_exact :
  forall (hok : bytes -> bytes -> option bool) (hdrdec : bytes -> option (list bytes * N))
         (k : skind) (o0 : wopts) (nilroots : bool) (h : list batch) s outs,
  let o := apply_wopts o0 in
  let ro := roots_opt nilroots [] in
  let stored := spec_stored k o ro h in
  session k o nilroots [] h = Ok (s, outs, ONil) ->
  51 + w_dpad o + w_ipad o < two64 -> w_ipad o < two63 ->
  history_ok h = true ->
  blen (ws_file s) < two63 ->
  (w_v1 o = false -> w_codec o = codec_mh_sorted ->
   N.of_nat (length (group_by r_code (ii_load (records_from (ld_size (blen (enc_header ro 1))) stored) []))) < two31) ->
  hdrdec pragma_body = Some ([], 2) -> hdrdec (enc_header ro 1) = Some ([], 1) ->
  Forall (Forall (fun b : block => blen (fst b) + blen (snd b) <= o_maxs default_ropts)) h ->
  Forall (Forall (hash_good hok)) h ->
  wf_parse o (ws_file s) = Some ([], stored) /\
  inspect_check hok hdrdec default_ropts true (ws_file s) = Ok tt /\
  verify_check hok hdrdec (ws_file s) = Err EOther.
Proof. exact c05_no_roots_exact. Qed.
Print Assumptions C05_no_roots_exact.

(* ---- the other producers of a finished archive ------------------------------------------------------------------
   [wf_finished exactflag o file] is wf_parse with the flag clause as a parameter: store.Finalize sets the
   fully-indexed bit iff StoreIdentityCIDs (exactflag = true, wf_parse); WrapV1 and the traversal writers never set
   it, for them the bit must only not lie (exactflag = false). *)

(* storage/deferred: once a writer exists and the history closed, the bytes at the target are those of a storage
   session fed the same puts (model: Deferred.v, C20), hence well-formed whenever the Finalize inside Close succeeded *)
Theorem C05_deferred_is_session :
  forall (c : dcfg) (ops : list dop) (s : wstate),
  dc_faults c = [] -> dc_kids c = [] -> d_inner (d_run c d_init ops) = Some s -> existsb is_close ops = true ->
  exists s2 outs fo,
    session (dc_kind c) (eff_opts c) (dc_nilroots c) (dc_roots c) [d_puts ops] = Ok (s2, outs, fo) /\
    d_bytes c (d_run c d_init ops) = ws_file s2.
Proof. exact deferred_is_session. Qed.
Print Assumptions C05_deferred_is_session.

Theorem C05_deferred_output_wf :
  forall (c : dcfg) (ops : list dop) (s : wstate),
  let o := eff_opts c in
  let ro := roots_opt (dc_nilroots c) (dc_roots c) in
  let stored := spec_stored (dc_kind c) o ro [d_puts ops] in
  let file := d_bytes c (d_run c d_init ops) in
  dc_faults c = [] -> dc_kids c = [] -> d_inner (d_run c d_init ops) = Some s -> existsb is_close ops = true ->
  exists s2 outs fo,
    session (dc_kind c) o (dc_nilroots c) (dc_roots c) [d_puts ops] = Ok (s2, outs, fo) /\ file = ws_file s2 /\
    (fo = ONil ->
     51 + w_dpad o + w_ipad o < two64 -> w_ipad o < two63 -> w_maxcid o + 8 <= max_width ->
     roots_ok (dc_roots c) -> history_ok [d_puts ops] = true -> blen file < two63 ->
     (w_v1 o = false -> w_codec o = codec_mh_sorted ->
      N.of_nat (length (group_by r_code (ii_load (records_from (ld_size (blen (enc_header ro 1))) stored) []))) < two31) ->
     wf_parse o file = Some (dc_roots c, stored)).
Proof. exact deferred_output_wf. Qed.
Print Assumptions C05_deferred_output_wf.

(* WrapV1 / WrapV1File (model: Transform.v, C10): the CARv2 it writes around a valid CARv1 is well-formed -- header
   arithmetic without padding, the payload verbatim, an index that resolves exactly the non-identity sections (all
   with StoreIdentityCIDs), bit not set *)
Theorem C05_wrap_output_wf :
  forall (hdrdec : bytes -> option (list bytes * N)) (xo : xopts) (roots : list bytes) (bs : list block)
         (i0 : index) (w : bytes),
  TransformWrap.wrap_ok hdrdec xo roots bs -> idx_new (x_codec xo) = Some i0 -> roots_ok roots ->
  Forall (fun b : block => blen (fst b) + blen (snd b) < two56) bs ->
  wrap_bytes hdrdec xo (enc_payload roots bs) = Ok w -> blen w < two63 ->
  (x_codec xo = codec_mh_sorted ->
   N.of_nat (length (group_by r_code (spec_records (x_storeid xo) (hdr_len (Some roots)) bs))) < two31) ->
  wf_finished false (wopts_of_x xo) w = Some (roots, bs).
Proof. exact wrap_output_wf. Qed.
Print Assumptions C05_wrap_output_wf.

(* TraverseToFile (and NewSelectiveWriter.WriteTo, which emits the same bytes; model: Traversal.v, C15): the index is
   built from a Go map whose iteration order [order] is any permutation and holds every section written, identity
   CIDs included; the bit is not set.  The traversal writers apply no MaxIndexCidSize: "every CID fits an index
   record" is a hypothesis here (notes/design/C05.md, gap). *)
Theorem C05_traverse_output_wf :
  forall (order : list (bytes * N) -> list (bytes * N)) (root : bytes) (o : Traversal.topts)
         (ls : list Traversal.load) (out : bytes),
  (forall l, Permutation (order l) l) ->
  let o' := Traversal.apply_opts o in
  let bs := Traversal.first_occ (Traversal.blocks_of ls) in
  Forall TraversalV2.load_ok ls ->
  TraversalV2.no_wrap o' (blen (enc_payload [root] bs)) = true ->
  Traversal.traverse_to_file order root o (Traversal.mktrace ls true) = (out, None) ->
  idx_new (Traversal.o_codec o') <> None ->
  roots_ok [root] -> Forall put_ok bs -> Forall (fun b : block => blen (fst b) + 8 <= max_width) bs ->
  blen out < two63 ->
  (Traversal.o_codec o' = codec_mh_sorted ->
   N.of_nat (length (group_by r_code (map rec_of_sec (secs_of (hdr_len (Some [root])) bs)))) < two31) ->
  wf_finished false (wopts_of_t o') out = Some ([root], bs).
Proof. exact traverse_output_wf. Qed.
Print Assumptions C05_traverse_output_wf.

(* ---- resumed sessions --------------------------------------------------------------------------------------------
   A session interrupted (Discard / dropped handle / Finalize) and resumed any number of times with the same options
   leaves, after the last Finalize, the bytes of the uninterrupted session (C12_transparent); by C05_wf they are
   well-formed and carry the puts of ALL segments.  [CrashGuarded.singles] turns the put list into the singleton
   batches of [session] (C06's bridge). *)
Theorem C05_resumed_session_wf :
  forall (hdrdec : bytes -> option (list bytes * N)) (k : skind) (o0 : wopts) (nilroots : bool)
         (roots : list bytes) (segs : list (list block * cut)) (last : list block) (s0 : wstate),
  let o := apply_wopts o0 in
  let ro := roots_opt nilroots roots in
  let all := concat (map fst segs) ++ last in
  hdrdec (enc_header ro 1) = Some (roots, 1) ->
  (exists r, hdrdec pragma_body = Some (r, 2)) ->
  blen (enc_header ro 1) <= w_maxh o ->
  match k with KStorage false => negb (w_v1 o) | _ => false end = false ->
  51 + w_dpad o + w_ipad o + ld_size (blen (enc_header ro 1)) + blen (enc_sections all) < two63 ->
  open_new k o nilroots roots [] = Ok s0 ->
  exists sN,
    run_segs hdrdec nilroots s0 segs = Some sN /\
    let fin := fe_finalize (run_puts sN last) in
    (snd (fe_finalize (run_puts s0 all)) = ONil ->
     w_ipad o < two63 -> roots_ok roots ->
     history_ok (CrashGuarded.singles all) = true ->
     blen (ws_file (fst fin)) < two63 ->
     (w_v1 o = false -> w_codec o = codec_mh_sorted ->
      N.of_nat (length (group_by r_code (ii_load (records_from (ld_size (blen (enc_header ro 1)))
                                                   (spec_stored k o ro (CrashGuarded.singles all))) []))) < two31) ->
     wf_parse o (ws_file (fst fin)) = Some (roots, spec_stored k o ro (CrashGuarded.singles all))).
Proof. exact resumed_session_wf. Qed.
Print Assumptions C05_resumed_session_wf.

(* Resume over a payload followed by zero bytes (null padding, a zero-filled crash tail) with
   ZeroLengthSectionAsEOF: the rescan rebuilds the index of the sections and leaves the writer where the last
   section ends -- at the zero length, not behind it (a writer positioned one byte later leaves a zero-length
   section in the middle of the finished payload: seeded change C05-9, caught by the check kind "finalresume") *)
Theorem C05_resume_scan_zero_tail :
  forall (base : N) (bs : list block) (pre : bytes) (ii : iidx) (fuel : nat) (n : N),
  Forall ResumeFacts.stored_ok bs ->
  base + blen pre + blen (enc_sections bs) < two63 ->
  (length bs < fuel)%nat -> 0 < n ->
  resume_scan fuel true base (pre ++ enc_sections bs ++ zerosN n) (blen pre) ii
  = Ok (ii_load (records_from (blen pre) bs) ii, blen pre + blen (enc_sections bs)).
Proof. exact resume_scan_zero_tail. Qed.
Print Assumptions C05_resume_scan_zero_tail.
