(* C01 -- round trip: every writer's output reads back identically through every reader, and all writers
   emit the same CARv1 payload for the same logical content.
   Only statements closed by [exact]; proofs are in proofs/RoundTrip*.v (writers: C05 / C20 / C15 results
   composed; readers: proofs/ReadOnly*.v, props/C01_readers.v), Examples in proofs/RoundTripExamples.v.

   Vocabulary
     session k o nilroots roots h     a writing session ending in Finalize (theories/Wf.v): k = blockstore.ReadWrite
                                      | storage.StorageCar on a file | on a stream; h = the put history
     spec_stored k o ro h             the documented de-duplication of the puts (by multihash, or by whole CID,
                                      or none with AllowDuplicatePuts; identity CIDs dropped unless stored)
     d_run / d_bytes / d_puts         the deferred writer (theories/Deferred.v)
     write_car ro vs ok               root car.WriteCar / WriteCarWithWalker given the sequence vs of (CID, bytes)
                                      merkledag's walk presented (the traversal oracle); first_occ = first
                                      occurrences
     car_file ct ro bs npad           the bytes of a constructed archive (props/C07.v); writer_ct o = the
                                      container a finalizing writer produces under options o (CARv1, or CARv2 with
                                      o's paddings, fully-indexed flag and embedded index of o's codec)
     wrote f ro bs ct                 "some writer produced file f from roots ro storing blocks bs in container
                                      ct" -- exactly the three cases of C01_writers_* below
     payload_of ro bs                 ld (enc_header ro 1) ++ enc_sections bs: header, then the sections
     rh_step k o / run_multi / proj   the sequential readers as state machines (theories/ReaderHist.v): k = the legacy
                                      root CarReader | the internal carv1 reader | the v2 BlockReader; operations
                                      Open and Next (Next again after io.EOF allowed); run_multi runs any number of
                                      readers under an interleaving schedule, run_one a single reader, proj i picks
                                      reader i's operations / answers
     positioned src pos               what a reader handed a seekable source holding src and standing at pos sees
     readers                          br_read_all (v2 BlockReader), new_reader/data_window (Reader.DataReader),
                                      root_read_all (root NewCarReader + Next), load_car (root LoadCar: the store
                                      calls), ro_open/ro_keys/ro_get (read-only blockstore), sto_open/sto_get *)
From GoCar Require Import Bytes Varint Cid Header Frame V2Header Scan Index Store ReadOnly RootLoad
  Wf Deferred Traversal.
From GoCarProofs Require Import HeaderFacts ScanFacts FinalWf ReadOnlyFacts ReadOnlyRefine ReadOnlyRoundTrip
  ReadOnlyMain ReadOnlyReaders RoundTripWriters RoundTrip ReaderHistFacts.
From GoCar Require Import ReaderHist.

(* ---- the writers: what each produces ------------------------------------------------------------------------ *)
(* blockstore.ReadWrite, storage.StorageCar on a file and on a stream (CARv1 only): within the limits of
   C05_layout the session succeeds and the file is the constructed archive of the given roots and the
   de-duplicated puts *)
Theorem C01_writers_session :
  forall (k : skind) (o : wopts) (nilroots : bool) (roots : list bytes) (h : list batch),
    let ro := roots_opt nilroots roots in
    (51 + w_dpad o + w_ipad o < two64 /\
     (k = KStorage false -> w_v1 o = true) /\
     Forall (Forall (fun b : block => blen (fst b) + blen (snd b) < 2 ^ 56)) h /\
     51 + w_dpad o + blen (ld (enc_header ro 1) ++ enc_sections (spec_stored k o ro h)) + w_ipad o < two64 /\
     (w_v1 o = false -> idx_new (w_codec o) <> None)) ->
    exists s outs, session k o nilroots roots h = Ok (s, outs, ONil) /\
                   car_file (writer_ct o) ro (spec_stored k o ro h) 0 = Some (ws_file s).
Proof. exact session_car_file. Qed.
Print Assumptions C01_writers_session.

(* the deferred writer (path or stream target, no write faults), closed after at least one Put *)
Theorem C01_writers_deferred :
  forall (c : dcfg) (ops : list dop) (s : wstate),
    dc_faults c = [] -> dc_kids c = [] ->
    d_inner (d_run c d_init ops) = Some s -> existsb is_close ops = true ->
    let o := eff_opts c in
    let ro := roots_opt (dc_nilroots c) (dc_roots c) in
    session_fits (dc_kind c) o ro [d_puts ops] ->
    car_file (writer_ct o) ro (spec_stored (dc_kind c) o ro [d_puts ops]) 0
    = Some (d_bytes c (d_run c d_init ops)).
Proof. exact deferred_car_file. Qed.
Print Assumptions C01_writers_deferred.

(* root car.WriteCar / WriteCarWithWalker: the blocks are the first occurrences of the visit sequence *)
Theorem C01_writers_root :
  forall (ro : option (list bytes)) (vs : list block) (ok : bool),
    car_file CV1 ro (first_occ vs) 0 = Some (fst (write_car ro vs ok)).
Proof. exact write_car_car_file. Qed.
Print Assumptions C01_writers_root.

(* [wrote] is exactly these three *)
Theorem C01_wrote_is_a_constructed_archive :
  forall f ro bs ct, wrote f ro bs ct -> car_file ct ro bs 0 = Some f.
Proof. exact wrote_car_file. Qed.
Print Assumptions C01_wrote_is_a_constructed_archive.

(* ---- all writers emit a byte-identical CARv1 payload for the same logical content ------------------------------ *)
(* whichever two writers produced f1 and f2 from the same roots and the same stored blocks (CARv1 or CARv2, any
   paddings, any index codec): Reader.DataReader shows the same bytes, payload_of ro bs *)
Theorem C01_payload_identical :
  forall maxh f1 f2 ro bs ct1 ct2,
    wrote f1 ro bs ct1 -> wrote f2 ro bs ct2 ->
    roots_ok (hdr_roots ro) -> blen (enc_header ro 1) <= maxh -> 10 <= maxh -> blen f1 < two63 -> blen f2 < two63 ->
    exists r1 r2, new_reader dec_header_canon maxh f1 = Ok r1 /\ new_reader dec_header_canon maxh f2 = Ok r2 /\
                  data_window r1 = ld (enc_header ro 1) ++ enc_sections bs /\
                  data_window r2 = ld (enc_header ro 1) ++ enc_sections bs.
Proof. exact payload_identical. Qed.
Print Assumptions C01_payload_identical.

(* ... and "the same stored blocks" for the same puts: the stored list depends only on the de-duplication
   options, not on the front-end, CARv1/CARv2, paddings or index codec (no put refused: every key is a CID
   within MaxIndexCidSize) *)
Theorem C01_same_puts_same_stored :
  forall k k' o o' ro h,
    (w_storeid o = w_storeid o' /\ w_maxcid o = w_maxcid o' /\ w_dups o = w_dups o' /\ w_whole o = w_whole o') ->
    Forall (Forall (fun b : block => cid_parse (fst b) <> None /\ blen (fst b) <= w_maxcid o)) h ->
    spec_stored k o ro h = spec_stored k' o' ro h.
Proof. exact spec_stored_same. Qed.
Print Assumptions C01_same_puts_same_stored.

(* ... and for the traversal writer: "the same logical content" = the visit sequence put into a store that
   de-duplicates by whole CID and stores identity CIDs -- it stores exactly WriteCar's first occurrences *)
Theorem C01_traversal_same_content :
  forall k o ro h,
    (w_whole o = true /\ w_storeid o = true /\ w_dups o = false) ->
    Forall (Forall (fun b : block => cid_parse (fst b) <> None /\ blen (fst b) <= w_maxcid o)) h ->
    spec_stored k o ro h = first_occ (concat h).
Proof. exact whole_store_first_occ. Qed.
Print Assumptions C01_traversal_same_content.

(* ---- round trip: writer x reader -------------------------------------------------------------------------------- *)
(* v2 BlockReader (hash-verifying unless o_trusted): hypothesis archive_ok_o = header fits, every stored block
   is a well-formed CID + data within MaxAllowedSectionSize and hashes to its CID per the oracle hok *)
Theorem C01_roundtrip_block_reader :
  forall hok o f ro bs ct,
    wrote f ro bs ct -> archive_ok_o hok dec_header_canon o ro bs -> 10 <= o_maxh o -> blen f < two63 ->
    br_read_all hok dec_header_canon o f
    = Ok (match ct with CV1 => 1 | CV2 _ _ _ _ _ => 2 end, hdr_roots ro, mkscan bs EEof).
Proof. exact rt_block_reader. Qed.
Print Assumptions C01_roundtrip_block_reader.

(* v2 Reader: DataReader = the payload, Roots = the roots *)
Theorem C01_roundtrip_data_reader :
  forall maxh f ro bs ct,
    wrote f ro bs ct -> roots_ok (hdr_roots ro) -> blen (enc_header ro 1) <= maxh -> 10 <= maxh -> blen f < two63 ->
    exists r, new_reader dec_header_canon maxh f = Ok r /\
              data_window r = ld (enc_header ro 1) ++ enc_sections bs /\
              reader_roots dec_header_canon maxh r = Ok (hdr_roots ro).
Proof. exact rt_data_reader. Qed.
Print Assumptions C01_roundtrip_data_reader.

(* root-module reader (car.NewCarReader + Next) over the payload (a CARv1 file, or a CARv2's DataReader).
   Documented exception as a hypothesis: it rejects an empty root list *)
Theorem C01_roundtrip_root_reader :
  forall hok ro bs,
    roots_ok (hdr_roots ro) -> blen (enc_header ro 1) <= root_max_section -> hdr_roots ro <> [] ->
    Forall root_block_ok bs -> Forall (hash_good hok) bs ->
    root_read_all hok dec_header_canon (ld (enc_header ro 1) ++ enc_sections bs) = Ok (hdr_roots ro, mkscan bs EEof).
Proof. exact rt_root_reader. Qed.
Print Assumptions C01_roundtrip_root_reader.

(* root-module loader car.LoadCar, one Put per block (fast = false) or PutMany batches (fast = true): it returns
   the roots and hands the store exactly the blocks, in order *)
Theorem C01_roundtrip_root_loader :
  forall fast hok ro bs,
    roots_ok (hdr_roots ro) -> blen (enc_header ro 1) <= root_max_section -> hdr_roots ro <> [] ->
    Forall root_block_ok bs -> Forall (hash_good hok) bs ->
    exists puts, load_car hok dec_header_canon fast (ld (enc_header ro 1) ++ enc_sections bs)
                 = (Ok (hdr_roots ro), puts) /\ concat puts = bs.
Proof. exact rt_load_car. Qed.
Print Assumptions C01_roundtrip_root_loader.

(* ... and both reject an empty root list (the explicit exception) *)
Theorem C01_root_reader_rejects_empty_roots :
  forall hok hdrdec file roots v rest,
    read_header_root hdrdec file = Ok (roots, v, rest) -> roots = [] ->
    root_read_all hok hdrdec file = Err EOther.
Proof. exact root_rejects_empty. Qed.
Print Assumptions C01_root_reader_rejects_empty_roots.

Theorem C01_internal_carv1_reader_rejects_empty_roots :
  forall hok hdrdec o file roots v rest used,
    read_header hdrdec (o_maxh o) file = Ok (roots, v, rest, used) -> roots = [] ->
    carv1_read_all hok hdrdec o file = Err EOther.
Proof. exact carv1_rejects_empty. Qed.
Print Assumptions C01_internal_carv1_reader_rejects_empty_roots.

(* internal carv1 reader (v2/internal/carv1 NewCarReader + Next) over the payload *)
Theorem C01_roundtrip_internal_carv1_reader :
  forall hok o ro bs,
    archive_ok_o hok dec_header_canon o ro bs -> hdr_roots ro <> [] -> Forall (hash_good hok) bs ->
    carv1_read_all hok dec_header_canon o (ld (enc_header ro 1) ++ enc_sections bs) = Ok (hdr_roots ro, mkscan bs EEof).
Proof. exact rt_carv1_reader. Qed.
Print Assumptions C01_roundtrip_internal_carv1_reader.

(* read-only blockstore: Roots, AllKeysChan = the CIDs in write order (as keys), Get of every key = its bytes.
   ra_limits = roots well-formed; header / sections / CIDs within the reader's limits; < 2^31 blocks for a
   CARv2; if the reader sets StoreIdentityCIDs the writer did too; sections with equal multihash carry equal
   bytes and identity sections carry their digest (both true of hash-consistent blocks) *)
Theorem C01_roundtrip_readonly_blockstore :
  forall q f ro bs ct,
    wrote f ro bs ct ->
    (roots_ok (hdr_roots ro) /\
     (blen (enc_header ro 1) <= q_maxh q /\ Forall (rblock_ok (q_maxs q) (q_maxcid q)) bs /\ (0 = 0 \/ q_zeof q = true)) /\
     (q_codec q = codec_sorted \/ q_codec q = codec_mh_sorted) /\ 10 <= q_maxh q /\
     (ct <> CV1 -> N.of_nat (length bs) < two31) /\
     (q_storeid q = true -> index_wid q ct None = true) /\ consistent bs /\ id_consistent bs) ->
    blen f < two63 ->
    exists s, ro_open dec_header_canon q f None = Ok s /\
      ro_roots dec_header_canon s = OKeys (hdr_roots ro) /\
      ro_keys dec_header_canon s = KKeys (ref_keys (q_whole q) bs) None /\
      forall c d p, In (c, d) bs -> cid_parse c = Some p -> ro_get s (key_of (q_whole q) c p) = OBytes d.
Proof. exact rt_readonly. Qed.
Print Assumptions C01_roundtrip_readonly_blockstore.

(* readable storage: Roots, Get / GetStream of every CID = its bytes *)
Theorem C01_roundtrip_readable_storage :
  forall q f ro bs ct,
    wrote f ro bs ct ->
    (roots_ok (hdr_roots ro) /\
     (blen (enc_header ro 1) <= q_maxh q /\ Forall (rblock_ok (q_maxs q) (q_maxcid q)) bs /\ (0 = 0 \/ q_zeof q = true)) /\
     (q_codec q = codec_sorted \/ q_codec q = codec_mh_sorted) /\ 10 <= q_maxh q /\
     (ct <> CV1 -> N.of_nat (length bs) < two31) /\
     (q_storeid q = true -> index_wid q ct None = true) /\ consistent bs /\ id_consistent bs) ->
    blen f < two63 ->
    exists s, sto_open dec_header_canon q f = Ok s /\
      sto_roots s = OKeys (hdr_roots ro) /\
      forall c d p, In (c, d) bs -> cid_parse c = Some p -> sto_get s (key_of (q_whole q) c p) = OBytes d.
Proof. exact rt_storage. Qed.
Print Assumptions C01_roundtrip_readable_storage.

(* the two random-access round trips with the content conditions in DECIDABLE form -- consistentb (equal
   multihash => equal bytes) and id_consistentb (identity sections carry their digest), theories/ReadOnly.v.
   The check evaluates exactly this boolean on the stored blocks of every generated case (clause
   stored-blocks-not-consistent), so for the generator's key pool the hypothesis is discharged per case. *)
Theorem C01_roundtrip_readonly_blockstore_dec :
  forall q f ro bs ct,
    wrote f ro bs ct ->
    (roots_ok (hdr_roots ro) /\
     (blen (enc_header ro 1) <= q_maxh q /\ Forall (rblock_ok (q_maxs q) (q_maxcid q)) bs /\ (0 = 0 \/ q_zeof q = true)) /\
     (q_codec q = codec_sorted \/ q_codec q = codec_mh_sorted) /\ 10 <= q_maxh q /\
     (ct <> CV1 -> N.of_nat (length bs) < two31) /\
     (q_storeid q = true -> index_wid q ct None = true) /\ consistentb bs && id_consistentb bs = true) ->
    blen f < two63 ->
    exists s, ro_open dec_header_canon q f None = Ok s /\
      ro_roots dec_header_canon s = OKeys (hdr_roots ro) /\
      ro_keys dec_header_canon s = KKeys (ref_keys (q_whole q) bs) None /\
      forall c d p, In (c, d) bs -> cid_parse c = Some p -> ro_get s (key_of (q_whole q) c p) = OBytes d.
Proof. exact rt_readonly_dec. Qed.
Print Assumptions C01_roundtrip_readonly_blockstore_dec.

Theorem C01_roundtrip_readable_storage_dec :
  forall q f ro bs ct,
    wrote f ro bs ct ->
    (roots_ok (hdr_roots ro) /\
     (blen (enc_header ro 1) <= q_maxh q /\ Forall (rblock_ok (q_maxs q) (q_maxcid q)) bs /\ (0 = 0 \/ q_zeof q = true)) /\
     (q_codec q = codec_sorted \/ q_codec q = codec_mh_sorted) /\ 10 <= q_maxh q /\
     (ct <> CV1 -> N.of_nat (length bs) < two31) /\
     (q_storeid q = true -> index_wid q ct None = true) /\ consistentb bs && id_consistentb bs = true) ->
    blen f < two63 ->
    exists s, sto_open dec_header_canon q f = Ok s /\
      sto_roots s = OKeys (hdr_roots ro) /\
      forall c d p, In (c, d) bs -> cid_parse c = Some p -> sto_get s (key_of (q_whole q) c p) = OBytes d.
Proof. exact rt_storage_dec. Qed.
Print Assumptions C01_roundtrip_readable_storage_dec.

(* ---- reader histories -------------------------------------------------------------------------------------- *)
(* several readers of one kind alive at once over any archives (valid or not), any interleaving of Open and Next,
   Next after io.EOF included: every reader answers exactly what it answers when run alone *)
Theorem C01_readers_are_independent :
  forall hok hdrdec k o sched sts i s,
    nth_error sts i = Some s ->
    proj i (run_multi rhstate rhans rhop (rh_step hok hdrdec k o) sts sched)
    = run_one rhstate rhans rhop (rh_step hok hdrdec k o) s (proj i sched).
Proof. exact rh_readers_independent. Qed.
Print Assumptions C01_readers_are_independent.

(* ... and a reader over a CARv1 with roots ro and blocks bs, opened and asked Next |bs| + extra times inside any
   such interleaving, answers the roots, the blocks in order, then io.EOF every further time *)
Theorem C01_reader_history_in_any_interleaving :
  forall hok hdrdec k o ro bs extra sts sched i,
    hdrdec (enc_header ro 1) = Some (hdr_roots ro, 1) ->
    blen (enc_header ro 1) <= (match k with KRoot => root_max_section | _ => o_maxh o end) ->
    blen (enc_header ro 1) < two63 ->
    (match k with KBlock => True | _ => hdr_roots ro <> [] end) ->
    Forall (block_ok_for hok k o) bs ->
    nth_error sts i = Some (mkrh (ld (enc_header ro 1) ++ enc_sections bs) None) ->
    proj i sched = HOpen :: nexts (length bs + extra) ->
    proj i (run_multi rhstate rhans rhop (rh_step hok hdrdec k o) sts sched)
    = HRoots (hdr_roots ro) :: map HBlock bs ++ repeat (HErr EEof) extra.
Proof. exact rh_interleaved_history. Qed.
Print Assumptions C01_reader_history_in_any_interleaving.

(* the v2 BlockReader alone over a CARv2 container *)
Theorem C01_block_reader_history_carv2 :
  forall hok hdrdec o ro bs extra chi clo dpad ipad ib,
    hdrdec (enc_header ro 1) = Some (hdr_roots ro, 1) ->
    blen (enc_header ro 1) <= o_maxh o -> blen (enc_header ro 1) < two63 ->
    hdrdec pragma_body = Some ([], 2) -> 10 <= o_maxh o ->
    chi < two64 -> clo < two64 ->
    blen (v2_file chi clo dpad ipad (payload_np ro bs 0) ib) < two63 ->
    Forall (block_ok_for hok KBlock o) bs ->
    run_one rhstate rhans rhop (rh_step hok hdrdec KBlock o)
            (mkrh (v2_file chi clo dpad ipad (payload_np ro bs 0) ib) None) (HOpen :: nexts (length bs + extra))
    = HRoots (hdr_roots ro) :: map HBlock bs ++ repeat (HErr EEof) extra.
Proof. exact rh_history_v2. Qed.
Print Assumptions C01_block_reader_history_carv2.

(* ---- positioned sources ------------------------------------------------------------------------------------- *)
(* NewBlockReader, ReadVersion and LoadIndex / GenerateIndex handed a seekable source positioned at a CAR that is
   preceded by anything answer what they answer for the CAR alone (so every read-back theorem above applies, and
   generated index offsets are relative to the CAR) *)
Theorem C01_positioned_source_reads_the_car :
  forall hok hdrdec o q pre file,
    br_read_all hok hdrdec o (positioned (pre ++ file) (blen pre)) = br_read_all hok hdrdec o file /\
    read_header hdrdec (o_maxh o) (positioned (pre ++ file) (blen pre)) = read_header hdrdec (o_maxh o) file /\
    gen_flat hdrdec q 0 (positioned (pre ++ file) (blen pre)) = gen_flat hdrdec q 0 file.
Proof. exact positioned_entry_points. Qed.
Print Assumptions C01_positioned_source_reads_the_car.
