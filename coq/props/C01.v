(* placeholder until the composed theorems land *)
