(* C18 -- `car create` followed by `car extract` reproduces the file tree.
   Only statements closed by [exact]; model theories/ExtractFs.v, proofs proofs/ExtractFsRoundTrip.v.

   What is proved: the extraction walk of the (repaired) `car extract` -- resolvePath, MkdirAll,
   Create, Symlink over the file-system model -- run on ANY packing of a directory tree into an
   empty output directory, recreates exactly that tree below the output directory (every relative
   path maps to the same kind of object with the same contents / link target, nothing else
   appears), changes nothing outside, and reports success.
   What is an oracle (explicit hypothesis on [pack]): what `car create` builds (go-unixfsnode:
   chunking, directory sharding, dag-pb link sorting, the blockstore session and root patch of
   go-car) and what the loaders of `car extract` present to the walk denote the tree -- reading a
   packed file yields the file (concat (chunks f) = f) and a packed directory lists its entries
   (in any order): forall s, ulook s (pack t) = tlook s t.  The reference packer u_of_t satisfies
   the hypothesis (C18_reference_packer_satisfies_the_oracle_hypothesis).
   The root clause of the property (single root = the CID `car root` prints) is evaluated on the
   implementation by the check (layer B); its go-car part is ReplaceRootsInFile (C10). *)
From GoCar Require Import Bytes ExtractFs.
From GoCarProofs Require Import ExtractFsRoundTrip.

Theorem C18_create_then_extract_reproduces_the_tree :
  forall pack : ftree -> utree,
    (forall t, valid_ftree t = true ->
               valid_utree (pack t) = true /\ (forall s, ulook s (pack t) = tlook s t)) ->
    forall fs cwd outdir root t,
      (forall k, look fs (Nat.iter k (@removelast name) cwd) = Some NDir) ->
      eval_symlinks_str fs cwd outdir = Some root ->
      look fs (phys_of cwd root) = Some NDir ->
      (forall c s, look fs (phys_of cwd root ++ c :: s) = None) ->
      valid_ftree t = true -> is_tdir t = true ->
      exists fs' n,
        extract_cmd true fs cwd outdir [] [RNode (pack t)] = (fs', XOk n) /\
        (forall s, look fs' (phys_of cwd root ++ s) = tlook s t) /\
        (forall p, ~ under (phys_of cwd root) p -> look fs' p = look fs p).
Proof. exact create_extract_roundtrip. Qed.
Print Assumptions C18_create_then_extract_reproduces_the_tree.

(* the same, on the abstract tree the walk is given (no packer): count reported = files + links *)
Theorem C18_extract_reproduces_any_valid_tree :
  forall fs cwd outdir root u,
    (forall k, look fs (Nat.iter k (@removelast name) cwd) = Some NDir) ->
    eval_symlinks_str fs cwd outdir = Some root ->
    look fs (phys_of cwd root) = Some NDir ->
    (forall c s, look fs (phys_of cwd root ++ c :: s) = None) ->
    valid_utree u = true -> is_udir u = true ->
    exists fs',
      extract_cmd true fs cwd outdir [] [RNode u] = (fs', XOk (uleaves u)) /\
      (forall s, look fs' (phys_of cwd root ++ s) = ulook s u) /\
      (forall p, ~ under (phys_of cwd root) p -> look fs' p = look fs p).
Proof. exact extract_reproduces_tree. Qed.
Print Assumptions C18_extract_reproduces_any_valid_tree.

Theorem C18_reference_packer_satisfies_the_oracle_hypothesis :
  forall t, valid_ftree t = true ->
            valid_utree (u_of_t t) = true /\ (forall s, ulook s (u_of_t t) = tlook s t).
Proof. exact reference_packer_ok. Qed.
Print Assumptions C18_reference_packer_satisfies_the_oracle_hypothesis.

(* --no-wrap on a lone file of more than one chunk: the root is a dag-pb file node and its bytes
   land in <output directory>/unknown (the name is not kept; a lone file of one chunk is a raw
   root, which `car extract` skips -- see notes/design/C18.md) *)
Theorem C18_lone_file_root_is_extracted_as_unknown :
  forall fs cwd outdir root d,
    (forall k, look fs (Nat.iter k (@removelast name) cwd) = Some NDir) ->
    eval_symlinks_str fs cwd outdir = Some root ->
    look fs (phys_of cwd root) = Some NDir ->
    look fs (phys_of cwd root ++ [unknown_name]) = None ->
    extract_cmd true fs cwd outdir [] [RNode (UFile d)] =
      (fs_set fs (phys_of cwd root ++ [unknown_name]) (NFile d), XOk 1).
Proof. exact extract_lone_file. Qed.
Print Assumptions C18_lone_file_root_is_extracted_as_unknown.

(* extraction from standard input: with the delivered fix every kind of stdin (regular file,
   pipe) lets a CARv1 or CARv2 archive be opened; before it a CARv2 on a pipe failed *)
Theorem C18_stdin_archive_opens_whatever_stdin_is :
  forall k version, stdin_open_ok true k version = true.
Proof. exact stdin_fixed_opens. Qed.
Print Assumptions C18_stdin_archive_opens_whatever_stdin_is.

Theorem C18_unpatched_stdin_pipe_refuted :
  exists k version, stdin_open_ok false k version = false.
Proof. exact stdin_unfixed_refuted. Qed.
Print Assumptions C18_unpatched_stdin_pipe_refuted.

(* Why lone --no-wrap sources other than a multi-chunk file are outside the round-trip clause: a
   root of the archive has no name.  A lone file of at most one chunk is packed as a single raw
   block (raw-codec root), a lone symlink as a symlink-typed node; `car extract` skips the first by
   design and sees no entries in the second: it reports zero files and changes nothing.  (The check
   requires exactly that of the implementation for these sources: status "no files extracted" and
   an empty output directory.) *)
Theorem C18_raw_root_is_skipped :
  forall fs cwd outdir, extract_cmd true fs cwd outdir [] [RRaw] = (fs, XOk 0).
Proof. exact extract_raw_root. Qed.
Print Assumptions C18_raw_root_is_skipped.

Theorem C18_symlink_root_extracts_nothing :
  forall fs cwd outdir root tg,
    (forall k, look fs (Nat.iter k (@removelast name) cwd) = Some NDir) ->
    eval_symlinks_str fs cwd outdir = Some root ->
    look fs (phys_of cwd root) = Some NDir ->
    extract_cmd true fs cwd outdir [] [RNode (ULink tg)] = (fs, XOk 0).
Proof. exact extract_symlink_root. Qed.
Print Assumptions C18_symlink_root_extracts_nothing.
