(* C02 -- untrusted reads never yield corrupted or silently truncated content.
   This file contains only statements closed by [exact]; proofs live in proofs/. *)
From GoCar Require Import Bytes Varint Cid Header Frame V2Header Scan.
From GoCarProofs Require Import ScanSound.

(* (a) for ALL byte strings, options, header-decoder and hash oracles: every block returned by a
   verifying reader hashes to its CID under the CID's own hash function. *)
Theorem C02_block_reader_returns_only_intact_blocks :
  forall hok hdrdec o file v roots out,
    o_trusted o = false ->
    br_read_all hok hdrdec o file = Ok (v, roots, out) ->
    Forall (intact hok) (s_blocks out).
Proof. exact br_read_all_intact. Qed.
Print Assumptions C02_block_reader_returns_only_intact_blocks.

Theorem C02_carv1_reader_returns_only_intact_blocks :
  forall hok hdrdec o file roots out,
    carv1_read_all hok hdrdec o file = Ok (roots, out) ->
    Forall (intact hok) (s_blocks out).
Proof. exact carv1_read_all_intact. Qed.
Print Assumptions C02_carv1_reader_returns_only_intact_blocks.

Theorem C02_root_reader_returns_only_intact_blocks :
  forall hok hdrdec file roots out,
    root_read_all hok hdrdec file = Ok (roots, out) ->
    Forall (intact_root hok) (s_blocks out).
Proof. exact root_read_all_intact. Qed.
Print Assumptions C02_root_reader_returns_only_intact_blocks.
