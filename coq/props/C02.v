(* C02 -- untrusted reads never yield corrupted or silently truncated content.
   This file contains only statements closed by [exact]; proofs live in proofs/. *)
From GoCar Require Import Bytes Varint Cid Header Frame V2Header Scan.
From GoCarProofs Require Import ScanSound.

(* (a) for ALL byte strings, options, header-decoder and hash oracles: every block returned by a
   verifying reader hashes to its CID under the CID's own hash function. *)
Theorem C02_block_reader_returns_only_intact_blocks :
  forall hok hdrdec o file v roots out,
    o_trusted o = false ->
    br_read_all hok hdrdec o file = Ok (v, roots, out) ->
    Forall (intact hok) (s_blocks out).
Proof. exact br_read_all_intact. Qed.
Print Assumptions C02_block_reader_returns_only_intact_blocks.

Theorem C02_carv1_reader_returns_only_intact_blocks :
  forall hok hdrdec o file roots out,
    carv1_read_all hok hdrdec o file = Ok (roots, out) ->
    Forall (intact hok) (s_blocks out).
Proof. exact carv1_read_all_intact. Qed.
Print Assumptions C02_carv1_reader_returns_only_intact_blocks.

Theorem C02_root_reader_returns_only_intact_blocks :
  forall hok hdrdec file roots out,
    root_read_all hok hdrdec file = Ok (roots, out) ->
    Forall (intact_root hok) (s_blocks out).
Proof. exact root_read_all_intact. Qed.
Print Assumptions C02_root_reader_returns_only_intact_blocks.

(* (b) truncation.  For every constructed CARv1 (any roots, any blocks that fit the limits and hash
   to their CIDs), every option row, and every cut k that is not on a section boundary, the v2
   BlockReader either fails to open (cut inside the header) or returns exactly the complete blocks in
   front of the cut and then an error that is NOT a clean end-of-archive. *)
From GoCarProofs Require Import BytesFacts VarintFacts CidFacts HeaderFacts ScanFacts ScanTrunc.
Theorem C02_truncation_is_never_a_clean_eof :
  forall hok hdrdec o roots bs k,
    archive_ok hok hdrdec o roots bs ->
    k < blen (enc_payload roots bs) ->
    ~ (exists j, (j <= length bs)%nat /\
                 k = blen (ld (enc_header (Some roots) 1)) + blen (enc_sections (firstn j bs))) ->
    (k < blen (ld (enc_header (Some roots) 1)) /\
       exists e, br_read_all hok hdrdec o (take k (enc_payload roots bs)) = Err e)
    \/ (blen (ld (enc_header (Some roots) 1)) <= k /\ exists j e, (j < length bs)%nat /\ e <> EEof /\
          br_read_all hok hdrdec o (take k (enc_payload roots bs))
          = Ok (1, roots, mkscan (firstn j bs) e)).
Proof. exact br_read_all_trunc_v1. Qed.
Print Assumptions C02_truncation_is_never_a_clean_eof.

(* (c) corruption.  A section whose bytes do not hash to its CID (what flipping a byte of block i's
   data or digest produces, unless the hash function collides -- that is the hypothesis hash_bad)
   makes a verifying scan return exactly the blocks in front of it and then an error. *)
Theorem C02_corrupted_block_stops_the_scan_with_an_error :
  forall hok hdrdec o roots pre c d rest,
    o_trusted o = false ->
    hdr_good hdrdec roots -> blen (enc_header (Some roots) 1) <= o_maxh o ->
    blen (enc_header (Some roots) 1) < two63 ->
    Forall (block_ok (o_maxs o)) pre -> Forall (hash_good hok) pre ->
    block_ok (o_maxs o) (c, d) -> hash_bad hok (c, d) ->
    br_read_all hok hdrdec o
      (ld (enc_header (Some roots) 1) ++ enc_sections pre ++ enc_section c d ++ rest)
    = Ok (1, roots, mkscan pre EOther).
Proof. exact br_read_all_corrupt_v1. Qed.
Print Assumptions C02_corrupted_block_stops_the_scan_with_an_error.

(* the intact archive reads back completely (so the two theorems above are about real deviations) *)
Theorem C02_intact_archive_reads_back :
  forall hok hdrdec o roots bs, archive_ok hok hdrdec o roots bs ->
    br_read_all hok hdrdec o (enc_payload roots bs) = Ok (1, roots, mkscan bs EEof).
Proof. exact br_read_all_v1. Qed.
Print Assumptions C02_intact_archive_reads_back.

(* (b) for CARv2 containers (pragma, 40-byte header, any data padding, anything after the payload):
   a cut inside the payload window that is not on a section boundary is a failed open or the complete
   blocks in front of the cut followed by an error that is not a clean EOF.  The only assumption on
   the CBOR oracle is that it decodes the 10-byte pragma body as {version: 2}. *)
From GoCarProofs Require Import ScanTruncV2.
Theorem C02_truncation_is_never_a_clean_eof_v2 :
  forall hok hdrdec, hdrdec pragma_body = Some ([], 2) ->
  forall o roots bs dpad ioff tail k,
    archive_ok hok hdrdec o roots bs -> 10 <= o_maxh o ->
    51 + dpad < two63 -> ioff < two63 -> 0 < blen (enc_payload roots bs) < two63 ->
    51 + dpad <= k -> k < 51 + dpad + blen (enc_payload roots bs) ->
    ~ (exists j, (j <= length bs)%nat /\
         k = 51 + dpad + blen (ld (enc_header (Some roots) 1)) + blen (enc_sections (firstn j bs))) ->
    (exists e, br_read_all hok hdrdec o (take k (container dpad ioff (enc_payload roots bs) tail)) = Err e)
    \/ (exists j e, (j < length bs)%nat /\ e <> EEof /\
          br_read_all hok hdrdec o (take k (container dpad ioff (enc_payload roots bs) tail))
          = Ok (2, roots, mkscan (firstn j bs) e)).
Proof. exact br_read_all_trunc_v2. Qed.
Print Assumptions C02_truncation_is_never_a_clean_eof_v2.

(* ==== round 2: the remaining scanning readers named by the property ================================
   (b),(c) for the internal carv1.CarReader and for the root-module car.CarReader, the loaders
   (car.LoadCar, internal carv1.LoadCar; Put path and PutMany path; any store-fault script), full
   inspection (Reader.Inspect(true)) and SkipNext.  Statements that have the same shape for the
   internal and the root-module code are stated as one theorem (a conjunction): every
   Print Assumptions walks the whole dependency cone, and the check has a time budget. *)
From GoCar Require Import Loaders Inspect BlockReaderPos.
From GoCarProofs Require Import ReadOnlyRoundTrip ScanTruncRoot LoaderFacts ScanTruncInspect.

(* ---- internal carv1.CarReader (NewCarReaderWithoutDefaults + Next loop) ---------------------------- *)
Theorem C02_carv1_reader_truncation_is_never_a_clean_eof :
  forall hok hdrdec o roots bs k,
    hdr_good hdrdec roots -> blen (enc_header (Some roots) 1) <= o_maxh o ->
    blen (enc_header (Some roots) 1) < two63 -> roots <> [] ->
    Forall (block_ok (o_maxs o)) bs -> Forall (hash_good hok) bs ->
    k < blen (enc_payload roots bs) ->
    ~ (exists j, (j <= length bs)%nat /\
                 k = blen (ld (enc_header (Some roots) 1)) + blen (enc_sections (firstn j bs))) ->
    (k < blen (ld (enc_header (Some roots) 1)) /\
       exists e, carv1_read_all hok hdrdec o (take k (enc_payload roots bs)) = Err e)
    \/ (blen (ld (enc_header (Some roots) 1)) <= k /\ exists j e, (j < length bs)%nat /\ e <> EEof /\
          carv1_read_all hok hdrdec o (take k (enc_payload roots bs))
          = Ok (roots, mkscan (firstn j bs) e)).
Proof. exact carv1_read_all_trunc_v1. Qed.
Print Assumptions C02_carv1_reader_truncation_is_never_a_clean_eof.

Theorem C02_carv1_reader_corrupted_block_stops_the_scan_with_an_error :
  forall hok hdrdec o roots pre c d rest,
    hdr_good hdrdec roots -> blen (enc_header (Some roots) 1) <= o_maxh o ->
    blen (enc_header (Some roots) 1) < two63 -> roots <> [] ->
    Forall (block_ok (o_maxs o)) pre -> Forall (hash_good hok) pre ->
    block_ok (o_maxs o) (c, d) -> hash_bad hok (c, d) ->
    carv1_read_all hok hdrdec o
      (ld (enc_header (Some roots) 1) ++ enc_sections pre ++ enc_section c d ++ rest)
    = Ok (roots, mkscan pre EOther).
Proof. exact carv1_read_all_corrupt_v1. Qed.
Print Assumptions C02_carv1_reader_corrupted_block_stops_the_scan_with_an_error.

(* ---- root-module car.CarReader (encoding/binary varints over bufio; CidFromReader on the section
   buffer; 32 MiB section cap).  [root_block_ok]: a well-formed CID with a digest within go-cid's
   stream-parser cap, section within util.MaxAllowedSectionSize. *)
Theorem C02_root_reader_truncation_is_never_a_clean_eof :
  forall hok hdrdec roots bs k,
    hdr_good hdrdec roots -> blen (enc_header (Some roots) 1) <= root_max_section -> roots <> [] ->
    Forall root_block_ok bs -> Forall (hash_good hok) bs ->
    k < blen (enc_payload roots bs) ->
    ~ (exists j, (j <= length bs)%nat /\
                 k = blen (ld (enc_header (Some roots) 1)) + blen (enc_sections (firstn j bs))) ->
    (k < blen (ld (enc_header (Some roots) 1)) /\
       exists e, root_read_all hok hdrdec (take k (enc_payload roots bs)) = Err e)
    \/ (blen (ld (enc_header (Some roots) 1)) <= k /\ exists j e, (j < length bs)%nat /\ e <> EEof /\
          root_read_all hok hdrdec (take k (enc_payload roots bs))
          = Ok (roots, mkscan (firstn j bs) e)).
Proof. exact root_read_all_trunc_v1. Qed.
Print Assumptions C02_root_reader_truncation_is_never_a_clean_eof.

Theorem C02_root_reader_corrupted_block_stops_the_scan_with_an_error :
  forall hok hdrdec roots pre c d rest,
    hdr_good hdrdec roots -> blen (enc_header (Some roots) 1) <= root_max_section -> roots <> [] ->
    Forall root_block_ok pre -> Forall (hash_good hok) pre ->
    root_block_ok (c, d) -> hash_bad hok (c, d) ->
    root_read_all hok hdrdec
      (ld (enc_header (Some roots) 1) ++ enc_sections pre ++ enc_section c d ++ rest)
    = Ok (roots, mkscan pre EOther).
Proof. exact root_read_all_corrupt_v1. Qed.
Print Assumptions C02_root_reader_corrupted_block_stops_the_scan_with_an_error.

(* both read the intact archive back completely (so the four theorems above are about real deviations) *)
Theorem C02_carv1_and_root_readers_read_the_intact_archive_back :
  forall hok hdrdec roots bs,
    hdr_good hdrdec roots -> roots <> [] -> Forall (hash_good hok) bs ->
    (forall o, blen (enc_header (Some roots) 1) <= o_maxh o -> blen (enc_header (Some roots) 1) < two63 ->
       Forall (block_ok (o_maxs o)) bs ->
       carv1_read_all hok hdrdec o (enc_payload roots bs) = Ok (roots, mkscan bs EEof)) /\
    (blen (enc_header (Some roots) 1) <= root_max_section -> Forall root_block_ok bs ->
       root_read_all hok hdrdec (enc_payload roots bs) = Ok (roots, mkscan bs EEof)).
Proof. exact readers_read_back. Qed.
Print Assumptions C02_carv1_and_root_readers_read_the_intact_archive_back.

(* ---- the loaders.  [carv1_load hok hdrdec fast fail file] / [root_load ...] is LoadCar over the bytes
   [file] into a store with ([fast = true]) or without a PutMany method, whose call number [k] fails
   when [fail = Some k]; the outcome is the list of store calls made (each with its blocks) and
   roots | error.  The internal loader reads with the default limits ([default_ropts]).

   For ALL byte strings, both paths, every store script: the blocks handed to the store are a prefix
   of what the reader's Next loop returns on the same bytes; the loader succeeds only if that loop
   ended with a clean io.EOF, all of its blocks were handed over and no store call failed; without
   store faults it returns exactly the reader's terminating error (success iff clean EOF), and the
   Put path has then stored every block the reader returned, one call per block. *)
Theorem C02_loaders_follow_their_readers :
  forall hok hdrdec fast fail file,
    match carv1_read_all hok hdrdec default_ropts file with
    | Err e => carv1_load hok hdrdec fast fail file = mkload [] (Err e)
    | Ok (roots, out) =>
      let lo := carv1_load hok hdrdec fast fail file in
      (exists t, concat (l_calls lo) ++ t = s_blocks out) /\
      (forall roots', l_res lo = Ok roots' ->
         roots' = roots /\ concat (l_calls lo) = s_blocks out /\ s_end out = EEof /\
         forall k, fail = Some k -> N.of_nat (length (l_calls lo)) <= k) /\
      (fail = None ->
         l_res lo = match s_end out with EEof => Ok roots | e => Err e end /\
         (s_end out = EEof \/ fast = false -> concat (l_calls lo) = s_blocks out)) /\
      (fast = false -> l_calls lo = map (fun b => [b]) (concat (l_calls lo)))
    end /\
    match root_read_all hok hdrdec file with
    | Err e => root_load hok hdrdec fast fail file = mkload [] (Err e)
    | Ok (roots, out) =>
      let lo := root_load hok hdrdec fast fail file in
      (exists t, concat (l_calls lo) ++ t = s_blocks out) /\
      (forall roots', l_res lo = Ok roots' ->
         roots' = roots /\ concat (l_calls lo) = s_blocks out /\ s_end out = EEof /\
         forall k, fail = Some k -> N.of_nat (length (l_calls lo)) <= k) /\
      (fail = None ->
         l_res lo = match s_end out with EEof => Ok roots | e => Err e end /\
         (s_end out = EEof \/ fast = false -> concat (l_calls lo) = s_blocks out)) /\
      (fast = false -> l_calls lo = map (fun b => [b]) (concat (l_calls lo)))
    end.
Proof. exact loaders_refine_readers. Qed.
Print Assumptions C02_loaders_follow_their_readers.

(* a caller cannot mistake a cut archive for a complete one: a nil error means the reader's loop over
   the same bytes ended with a clean EOF, exactly its blocks went to the store, no store call failed *)
Theorem C02_loaders_succeed_only_on_a_complete_clean_scan :
  forall hok hdrdec fast fail file calls roots,
    (carv1_load hok hdrdec fast fail file = mkload calls (Ok roots) ->
       carv1_read_all hok hdrdec default_ropts file = Ok (roots, mkscan (concat calls) EEof) /\
       forall k, fail = Some k -> N.of_nat (length calls) <= k) /\
    (root_load hok hdrdec fast fail file = mkload calls (Ok roots) ->
       root_read_all hok hdrdec file = Ok (roots, mkscan (concat calls) EEof) /\
       forall k, fail = Some k -> N.of_nat (length calls) <= k).
Proof. exact loaders_ok_complete. Qed.
Print Assumptions C02_loaders_succeed_only_on_a_complete_clean_scan.

(* (a) for the loaders: only blocks that hash to their CIDs ever reach the store -- all byte strings *)
Theorem C02_loaders_store_only_intact_blocks :
  forall hok hdrdec fast fail file,
    Forall (intact hok) (concat (l_calls (carv1_load hok hdrdec fast fail file))) /\
    Forall (intact_root hok) (concat (l_calls (root_load hok hdrdec fast fail file))).
Proof. exact loaders_store_only_intact. Qed.
Print Assumptions C02_loaders_store_only_intact_blocks.

(* (b) for the loaders: a cut that is not on a section boundary makes LoadCar return an error (never
   nil), having stored only complete blocks from in front of the cut (none when the cut is in the
   header; all of them on the Put path without store faults); without store faults the error is the
   reader's and is not io.EOF. *)
Theorem C02_carv1_loader_fails_on_a_truncated_archive :
  forall hok hdrdec fast fail roots bs k,
    hdr_good hdrdec roots -> blen (enc_header (Some roots) 1) <= o_maxh default_ropts ->
    roots <> [] -> Forall (block_ok (o_maxs default_ropts)) bs -> Forall (hash_good hok) bs ->
    k < blen (enc_payload roots bs) ->
    ~ (exists j, (j <= length bs)%nat /\
                 k = blen (ld (enc_header (Some roots) 1)) + blen (enc_sections (firstn j bs))) ->
    exists calls e, carv1_load hok hdrdec fast fail (take k (enc_payload roots bs)) = mkload calls (Err e) /\
      (k < blen (ld (enc_header (Some roots) 1)) -> calls = []) /\
      (exists j t, (j <= length bs)%nat /\ concat calls ++ t = firstn j bs /\
         (blen (ld (enc_header (Some roots) 1)) <= k ->
            (j < length bs)%nat /\ (fail = None -> fast = false -> t = []))) /\
      (blen (ld (enc_header (Some roots) 1)) <= k -> fail = None -> e <> EEof).
Proof. exact carv1_load_trunc. Qed.
Print Assumptions C02_carv1_loader_fails_on_a_truncated_archive.

Theorem C02_root_loader_fails_on_a_truncated_archive :
  forall hok hdrdec fast fail roots bs k,
    hdr_good hdrdec roots -> blen (enc_header (Some roots) 1) <= root_max_section ->
    roots <> [] -> Forall root_block_ok bs -> Forall (hash_good hok) bs ->
    k < blen (enc_payload roots bs) ->
    ~ (exists j, (j <= length bs)%nat /\
                 k = blen (ld (enc_header (Some roots) 1)) + blen (enc_sections (firstn j bs))) ->
    exists calls e, root_load hok hdrdec fast fail (take k (enc_payload roots bs)) = mkload calls (Err e) /\
      (k < blen (ld (enc_header (Some roots) 1)) -> calls = []) /\
      (exists j t, (j <= length bs)%nat /\ concat calls ++ t = firstn j bs /\
         (blen (ld (enc_header (Some roots) 1)) <= k ->
            (j < length bs)%nat /\ (fail = None -> fast = false -> t = []))) /\
      (blen (ld (enc_header (Some roots) 1)) <= k -> fail = None -> e <> EEof).
Proof. exact root_load_trunc. Qed.
Print Assumptions C02_root_loader_fails_on_a_truncated_archive.

(* (c) for the loaders: a section whose bytes do not hash to its CID makes LoadCar return an error, having
   stored only blocks from in front of it (all of them, one per call, on the Put path without faults) *)
Theorem C02_loaders_fail_on_a_corrupted_block :
  forall hok hdrdec fast fail roots pre c d rest,
    hdr_good hdrdec roots -> roots <> [] -> Forall (hash_good hok) pre -> hash_bad hok (c, d) ->
    (blen (enc_header (Some roots) 1) <= o_maxh default_ropts ->
     Forall (block_ok (o_maxs default_ropts)) pre -> block_ok (o_maxs default_ropts) (c, d) ->
     exists calls e t,
       carv1_load hok hdrdec fast fail
         (ld (enc_header (Some roots) 1) ++ enc_sections pre ++ enc_section c d ++ rest)
       = mkload calls (Err e) /\ concat calls ++ t = pre /\
       (fail = None -> e = EOther /\ (fast = false -> calls = map (fun b => [b]) pre))) /\
    (blen (enc_header (Some roots) 1) <= root_max_section ->
     Forall root_block_ok pre -> root_block_ok (c, d) ->
     exists calls e t,
       root_load hok hdrdec fast fail
         (ld (enc_header (Some roots) 1) ++ enc_sections pre ++ enc_section c d ++ rest)
       = mkload calls (Err e) /\ concat calls ++ t = pre /\
       (fail = None -> e = EOther /\ (fast = false -> calls = map (fun b => [b]) pre))).
Proof. exact loaders_corrupt. Qed.
Print Assumptions C02_loaders_fail_on_a_corrupted_block.

(* the intact archive loads completely when the store does not fail *)
Theorem C02_loaders_load_the_intact_archive :
  forall hok hdrdec fast roots bs,
    hdr_good hdrdec roots -> roots <> [] -> Forall (hash_good hok) bs ->
    (blen (enc_header (Some roots) 1) <= o_maxh default_ropts ->
     Forall (block_ok (o_maxs default_ropts)) bs ->
     exists calls, carv1_load hok hdrdec fast None (enc_payload roots bs) = mkload calls (Ok roots) /\
                   concat calls = bs) /\
    (blen (enc_header (Some roots) 1) <= root_max_section -> Forall root_block_ok bs ->
     exists calls, root_load hok hdrdec fast None (enc_payload roots bs) = mkload calls (Ok roots) /\
                   concat calls = bs).
Proof. exact loaders_intact. Qed.
Print Assumptions C02_loaders_load_the_intact_archive.

(* ---- full inspection: NewReader + Reader.Inspect(true) ([inspect_file ... true]), corollaries of
   C13_inspect_iff_scan and C13_inspect_eof_error_never_from_a_section.  Section limit up to go-cid's
   32 MiB stream-parser cap, as in C13. *)
Theorem C02_inspect_fails_on_a_truncated_archive :
  forall hok hdrdec o roots bs k,
    o_maxs o <= max_digest_alloc ->
    hdr_good hdrdec roots -> blen (enc_header (Some roots) 1) <= o_maxh o ->
    blen (enc_header (Some roots) 1) < two63 ->
    Forall (block_ok (o_maxs o)) bs -> Forall (hash_good hok) bs ->
    k < blen (enc_payload roots bs) ->
    ~ (exists j, (j <= length bs)%nat /\
                 k = blen (ld (enc_header (Some roots) 1)) + blen (enc_sections (firstn j bs))) ->
    exists e, inspect_file hok hdrdec o (take k (enc_payload roots bs)) true = Err e /\
              (blen (ld (enc_header (Some roots) 1)) <= k -> e <> EEof).
Proof. exact inspect_trunc_v1. Qed.
Print Assumptions C02_inspect_fails_on_a_truncated_archive.

Theorem C02_inspect_fails_on_a_corrupted_block :
  forall hok hdrdec o roots pre c d rest,
    o_maxs o <= max_digest_alloc ->
    hdr_good hdrdec roots -> blen (enc_header (Some roots) 1) <= o_maxh o ->
    blen (enc_header (Some roots) 1) < two63 ->
    Forall (block_ok (o_maxs o)) pre -> Forall (hash_good hok) pre ->
    block_ok (o_maxs o) (c, d) -> hash_bad hok (c, d) ->
    exists e, e <> EEof /\
      inspect_file hok hdrdec o
        (ld (enc_header (Some roots) 1) ++ enc_sections pre ++ enc_section c d ++ rest) true = Err e.
Proof. exact inspect_corrupt_v1. Qed.
Print Assumptions C02_inspect_fails_on_a_corrupted_block.

(* ---- SkipNext (and Next) of the position-tracking BlockReader model of C14: whenever what is left in
   front of the reader is a proper non-empty prefix of a section -- the state after the complete
   sections of a cut archive have been consumed by any mix of the two calls -- neither reports io.EOF
   (corollary of C14_eof_only_at_a_clean_end). *)
Theorem C02_skipnext_never_reports_a_cut_section_as_eof :
  forall hok o st c d m,
    block_ok (o_maxs o) (c, d) -> 0 < m -> m < blen (enc_section c d) ->
    vis st = take m (enc_section c d) ->
    brp_skip o st <> Err EEof /\ brp_next hok o st <> Err EEof.
Proof. exact skip_next_cut_section_not_eof. Qed.
Print Assumptions C02_skipnext_never_reports_a_cut_section_as_eof.

(* ==== round 3: failed length prefixes under every option set; SkipNext and mixed walks ================= *)
From GoCarProofs Require Import BlockReaderPosFacts ScanTruncWalk.

(* For ALL byte strings and options: a Next call (v2 BlockReader / internal carv1 reader: [next_block];
   root-module reader: [next_block_root]) reports io.EOF only at a clean end -- nothing is left, or, under
   ZeroLengthSectionAsEOF, the next length prefix is the single byte 0; for the root module: nothing is
   left, or the next section has length zero (its legacy null-padding tolerance).  In particular a length
   prefix that fails to decode -- cut inside a multi-byte varint, overflowing, not minimally encoded -- is
   never a clean end, with or without ZeroLengthSectionAsEOF. *)
Theorem C02_next_reports_eof_only_at_a_clean_end :
  forall hok,
    (forall o s, next_block hok o s = Err EEof ->
       s = [] \/ (o_zeof o = true /\ exists rest n, read_uv s = VOk 0 rest n)) /\
    (forall s, next_block_root hok s = Err EEof -> s = [] \/ exists rest, ld_read_root s = Ok ([], rest)).
Proof. exact next_eof_clean_both. Qed.
Print Assumptions C02_next_reports_eof_only_at_a_clean_end.

(* For ALL states of the position-tracking BlockReader (any input, options, source kind; for SkipNext's
   seek path: readerSize, once learnt, is the size of the source -- an invariant of NewBlockReader and of
   every call, TotalWalk.brp_open_state / brp_skip_progress): Next returns a block and SkipNext returns
   metadata only if the whole section the length prefix declares is in front of the reader. *)
Theorem C02_next_and_skipnext_return_only_complete_sections :
  forall hok o st,
    (forall b st', brp_next hok o st = Ok (b, st') ->
       exists l rest n, ld_read_size (o_zeof o) (o_maxs o) (vis st) = Ok (l, rest, n) /\ l <= blen rest) /\
    (forall m st',
       (p_lim st = None -> p_rsize st = None \/ p_rsize st = Some (blen (p_all st))) ->
       brp_skip o st = Ok (m, st') ->
       exists l rest n, ld_read_size (o_zeof o) (o_maxs o) (vis st) = Ok (l, rest, n) /\ l <= blen rest).
Proof. exact calls_return_whole_sections. Qed.
Print Assumptions C02_next_and_skipnext_return_only_complete_sections.

(* (b) for every walk: NewBlockReader over a constructed CARv1 cut at any k that is not a section boundary,
   on a seekable or a plain source ([seek]), under any options, driven by ANY choice string [w] of Next
   (true) and SkipNext (false): a failed open (cut in the header), or the walk returns only sections
   that lie completely in front of the cut, in the archive's order (at most the j complete ones), never
   ends with io.EOF, and if the choices outlast the returned steps it ends with an error. *)
Theorem C02_mixed_walk_truncation_is_never_a_clean_eof :
  forall hok hdrdec o seek roots bs k w,
    hdr_good hdrdec roots -> blen (enc_header (Some roots) 1) <= o_maxh o ->
    blen (enc_header (Some roots) 1) < two63 ->
    Forall (block_ok (o_maxs o)) bs -> Forall (fun b => cid_stream_ok (fst b)) bs ->
    (o_trusted o = false -> Forall (hash_good hok) bs) ->
    k < blen (enc_payload roots bs) ->
    ~ (exists j, (j <= length bs)%nat /\
                 k = blen (ld (enc_header (Some roots) 1)) + blen (enc_sections (firstn j bs))) ->
    (k < blen (ld (enc_header (Some roots) 1)) /\
       exists e, brp_run hok hdrdec o seek (take k (enc_payload roots bs)) w = Err e)
    \/ (blen (ld (enc_header (Some roots) 1)) <= k /\
        exists j st0 steps e fin, (j < length bs)%nat /\
          blen (ld (enc_header (Some roots) 1)) + blen (enc_sections (firstn j bs)) < k /\
          brp_run hok hdrdec o seek (take k (enc_payload roots bs)) w = Ok (1, roots, st0, (steps, (e, fin))) /\
          (length steps <= j)%nat /\
          map step_cid steps = firstn (length steps) (map fst bs) /\
          e <> Some EEof /\
          ((length steps < length w)%nat -> exists e', e' <> EEof /\ e = Some e')).
Proof. exact brp_run_trunc_v1. Qed.
Print Assumptions C02_mixed_walk_truncation_is_never_a_clean_eof.

(* ==== extension round: CARv2 containers for (c), for Inspect(true), and for mixed walks =============== *)
From GoCarProofs Require Import ScanTruncV2Walk.

(* (c) for the BlockReader over a CARv2 container (any data padding, index offset, trailing bytes) whose
   payload holds a section that does not hash to its CID *)
Theorem C02_corrupted_block_stops_the_scan_with_an_error_v2 :
  forall hok hdrdec, hdrdec pragma_body = Some ([], 2) ->
  forall o roots pre c d rest dpad ioff tail,
    o_trusted o = false ->
    hdr_good hdrdec roots -> blen (enc_header (Some roots) 1) <= o_maxh o ->
    blen (enc_header (Some roots) 1) < two63 ->
    Forall (block_ok (o_maxs o)) pre -> Forall (hash_good hok) pre ->
    block_ok (o_maxs o) (c, d) -> hash_bad hok (c, d) ->
    10 <= o_maxh o -> 51 + dpad < two63 -> ioff < two63 ->
    blen (ld (enc_header (Some roots) 1) ++ enc_sections pre ++ enc_section c d ++ rest) < two63 ->
    br_read_all hok hdrdec o
      (container dpad ioff (ld (enc_header (Some roots) 1) ++ enc_sections pre ++ enc_section c d ++ rest) tail)
    = Ok (2, roots, mkscan pre EOther).
Proof. exact br_read_all_corrupt_v2. Qed.
Print Assumptions C02_corrupted_block_stops_the_scan_with_an_error_v2.

(* NewReader + Reader.Inspect(true) over a CARv2 container cut inside its payload off a section boundary,
   and over one whose payload holds a corrupted section: fails (corollaries of C13_inspect_iff_scan) *)
Theorem C02_inspect_fails_on_a_cut_or_corrupted_carv2 :
  forall hok hdrdec, hdrdec pragma_body = Some ([], 2) ->
  forall o roots dpad ioff tail,
    o_maxs o <= max_digest_alloc ->
    hdr_good hdrdec roots -> blen (enc_header (Some roots) 1) <= o_maxh o ->
    blen (enc_header (Some roots) 1) < two63 -> 10 <= o_maxh o -> 51 + dpad < two63 -> ioff < two63 ->
    (forall bs k,
       Forall (block_ok (o_maxs o)) bs -> Forall (hash_good hok) bs -> 0 < blen (enc_payload roots bs) < two63 ->
       51 + dpad <= k -> k < 51 + dpad + blen (enc_payload roots bs) ->
       ~ (exists j, (j <= length bs)%nat /\
            k = 51 + dpad + blen (ld (enc_header (Some roots) 1)) + blen (enc_sections (firstn j bs))) ->
       exists e, inspect_file hok hdrdec o (take k (container dpad ioff (enc_payload roots bs) tail)) true = Err e) /\
    (forall pre c d rest,
       Forall (block_ok (o_maxs o)) pre -> Forall (hash_good hok) pre ->
       block_ok (o_maxs o) (c, d) -> hash_bad hok (c, d) ->
       blen (ld (enc_header (Some roots) 1) ++ enc_sections pre ++ enc_section c d ++ rest) < two63 ->
       exists e, inspect_file hok hdrdec o
         (container dpad ioff (ld (enc_header (Some roots) 1) ++ enc_sections pre ++ enc_section c d ++ rest) tail)
         true = Err e).
Proof. exact inspect_v2_fails. Qed.
Print Assumptions C02_inspect_fails_on_a_cut_or_corrupted_carv2.

(* (b) for every walk over a CARv2 container: NewBlockReader over the container cut at any k inside the
   sections of its payload that is not a section boundary, on a seekable or a plain source, any options,
   ANY choice string of Next (true) / SkipNext (false): only sections lying completely in front of the cut
   are returned, in order; the walk never ends with io.EOF; it ends with an error as soon as the choices
   outlast the returned steps.  (SkipNext on a CARv2 reads through the io.LimitReader of the payload.) *)
Theorem C02_mixed_walk_truncation_is_never_a_clean_eof_v2 :
  forall hok hdrdec, hdrdec pragma_body = Some ([], 2) ->
  forall o seek roots bs dpad ioff tail k w,
    hdr_good hdrdec roots -> blen (enc_header (Some roots) 1) <= o_maxh o ->
    blen (enc_header (Some roots) 1) < two63 ->
    Forall (block_ok (o_maxs o)) bs -> Forall (fun b => cid_stream_ok (fst b)) bs ->
    (o_trusted o = false -> Forall (hash_good hok) bs) ->
    10 <= o_maxh o -> 51 + dpad < two63 -> ioff < two63 -> 0 < blen (enc_payload roots bs) < two63 ->
    51 + dpad + blen (ld (enc_header (Some roots) 1)) <= k -> k < 51 + dpad + blen (enc_payload roots bs) ->
    ~ (exists j, (j <= length bs)%nat /\
         k = 51 + dpad + blen (ld (enc_header (Some roots) 1)) + blen (enc_sections (firstn j bs))) ->
    exists j st0 steps e fin, (j < length bs)%nat /\
      51 + dpad + blen (ld (enc_header (Some roots) 1)) + blen (enc_sections (firstn j bs)) < k /\
      brp_run hok hdrdec o seek (take k (container dpad ioff (enc_payload roots bs) tail)) w
      = Ok (2, roots, st0, (steps, (e, fin))) /\
      (length steps <= j)%nat /\
      map step_cid steps = firstn (length steps) (map fst bs) /\
      e <> Some EEof /\
      ((length steps < length w)%nat -> exists e', e' <> EEof /\ e = Some e').
Proof. exact brp_run_trunc_v2. Qed.
Print Assumptions C02_mixed_walk_truncation_is_never_a_clean_eof_v2.
