(* C02 -- untrusted reads never yield corrupted or silently truncated content.
   This file contains only statements closed by [exact]; proofs live in proofs/. *)
From GoCar Require Import Bytes Varint Cid Header Frame V2Header Scan.
From GoCarProofs Require Import ScanSound.

(* (a) for ALL byte strings, options, header-decoder and hash oracles: every block returned by a
   verifying reader hashes to its CID under the CID's own hash function. *)
Theorem C02_block_reader_returns_only_intact_blocks :
  forall hok hdrdec o file v roots out,
    o_trusted o = false ->
    br_read_all hok hdrdec o file = Ok (v, roots, out) ->
    Forall (intact hok) (s_blocks out).
Proof. exact br_read_all_intact. Qed.
Print Assumptions C02_block_reader_returns_only_intact_blocks.

Theorem C02_carv1_reader_returns_only_intact_blocks :
  forall hok hdrdec o file roots out,
    carv1_read_all hok hdrdec o file = Ok (roots, out) ->
    Forall (intact hok) (s_blocks out).
Proof. exact carv1_read_all_intact. Qed.
Print Assumptions C02_carv1_reader_returns_only_intact_blocks.

Theorem C02_root_reader_returns_only_intact_blocks :
  forall hok hdrdec file roots out,
    root_read_all hok hdrdec file = Ok (roots, out) ->
    Forall (intact_root hok) (s_blocks out).
Proof. exact root_read_all_intact. Qed.
Print Assumptions C02_root_reader_returns_only_intact_blocks.

(* (b) truncation.  For every constructed CARv1 (any roots, any blocks that fit the limits and hash
   to their CIDs), every option row, and every cut k that is not on a section boundary, the v2
   BlockReader either fails to open (cut inside the header) or returns exactly the complete blocks in
   front of the cut and then an error that is NOT a clean end-of-archive. *)
From GoCarProofs Require Import BytesFacts VarintFacts CidFacts HeaderFacts ScanFacts ScanTrunc.
Theorem C02_truncation_is_never_a_clean_eof :
  forall hok hdrdec o roots bs k,
    archive_ok hok hdrdec o roots bs ->
    k < blen (enc_payload roots bs) ->
    ~ (exists j, (j <= length bs)%nat /\
                 k = blen (ld (enc_header (Some roots) 1)) + blen (enc_sections (firstn j bs))) ->
    (k < blen (ld (enc_header (Some roots) 1)) /\
       exists e, br_read_all hok hdrdec o (take k (enc_payload roots bs)) = Err e)
    \/ (blen (ld (enc_header (Some roots) 1)) <= k /\ exists j e, (j < length bs)%nat /\ e <> EEof /\
          br_read_all hok hdrdec o (take k (enc_payload roots bs))
          = Ok (1, roots, mkscan (firstn j bs) e)).
Proof. exact br_read_all_trunc_v1. Qed.
Print Assumptions C02_truncation_is_never_a_clean_eof.

(* (c) corruption.  A section whose bytes do not hash to its CID (what flipping a byte of block i's
   data or digest produces, unless the hash function collides -- that is the hypothesis hash_bad)
   makes a verifying scan return exactly the blocks in front of it and then an error. *)
Theorem C02_corrupted_block_stops_the_scan_with_an_error :
  forall hok hdrdec o roots pre c d rest,
    o_trusted o = false ->
    hdr_good hdrdec roots -> blen (enc_header (Some roots) 1) <= o_maxh o ->
    blen (enc_header (Some roots) 1) < two63 ->
    Forall (block_ok (o_maxs o)) pre -> Forall (hash_good hok) pre ->
    block_ok (o_maxs o) (c, d) -> hash_bad hok (c, d) ->
    br_read_all hok hdrdec o
      (ld (enc_header (Some roots) 1) ++ enc_sections pre ++ enc_section c d ++ rest)
    = Ok (1, roots, mkscan pre EOther).
Proof. exact br_read_all_corrupt_v1. Qed.
Print Assumptions C02_corrupted_block_stops_the_scan_with_an_error.

(* the intact archive reads back completely (so the two theorems above are about real deviations) *)
Theorem C02_intact_archive_reads_back :
  forall hok hdrdec o roots bs, archive_ok hok hdrdec o roots bs ->
    br_read_all hok hdrdec o (enc_payload roots bs) = Ok (1, roots, mkscan bs EEof).
Proof. exact br_read_all_v1. Qed.
Print Assumptions C02_intact_archive_reads_back.

(* (b) for CARv2 containers (pragma, 40-byte header, any data padding, anything after the payload):
   a cut inside the payload window that is not on a section boundary is a failed open or the complete
   blocks in front of the cut followed by an error that is not a clean EOF.  The only assumption on
   the CBOR oracle is that it decodes the 10-byte pragma body as {version: 2}. *)
From GoCarProofs Require Import ScanTruncV2.
Theorem C02_truncation_is_never_a_clean_eof_v2 :
  forall hok hdrdec, hdrdec pragma_body = Some ([], 2) ->
  forall o roots bs dpad ioff tail k,
    archive_ok hok hdrdec o roots bs -> 10 <= o_maxh o ->
    51 + dpad < two63 -> ioff < two63 -> 0 < blen (enc_payload roots bs) < two63 ->
    51 + dpad <= k -> k < 51 + dpad + blen (enc_payload roots bs) ->
    ~ (exists j, (j <= length bs)%nat /\
         k = 51 + dpad + blen (ld (enc_header (Some roots) 1)) + blen (enc_sections (firstn j bs))) ->
    (exists e, br_read_all hok hdrdec o (take k (container dpad ioff (enc_payload roots bs) tail)) = Err e)
    \/ (exists j e, (j < length bs)%nat /\ e <> EEof /\
          br_read_all hok hdrdec o (take k (container dpad ioff (enc_payload roots bs) tail))
          = Ok (2, roots, mkscan (firstn j bs) e)).
Proof. exact br_read_all_trunc_v2. Qed.
Print Assumptions C02_truncation_is_never_a_clean_eof_v2.
