(* C15 -- traversal writers emit exactly the visited blocks, once, in first-visit order, with
   correct sizes.  Only statements closed by [exact]; proofs live in proofs/Traversal*.v.

   Quantification: every load sequence [ls] (the blocks the traversal library opened, in order,
   repeats included -- the oracle), every root (list), every data/index padding and index codec,
   every Go-map iteration order [order] of the teeing loader's records.  Hypotheses about the
   oracle are written out: each opened link is a well-formed CID whose reader is read
   (cid_bytes_ok, l_touched); for the sizing pass, decoders read blocks to their end
   (l_nread = |data|) and both passes open the same blocks. *)
From GoCar Require Import Bytes Varint Cid Header Frame V2Header Scan Index Traversal.
From GoCarProofs Require Import BytesFacts VarintFacts CidFacts ScanFacts
  TraversalSpec TraversalV2 TraversalRoot TraversalExamples.

(* what "each block once, in first-visit order" means: no CID twice, the same CIDs as the loads,
   an order-preserving sub-sequence, and the copy kept is the first one *)
Theorem C15_first_visit_order_meaning :
  forall bs : list block,
    NoDup (map fst (first_occ bs))
    /\ (forall c, In c (map fst (first_occ bs)) <-> In c (map fst bs))
    /\ subseq (first_occ bs) bs
    /\ (forall b, In b (first_occ bs) ->
          exists pre post, bs = pre ++ b :: post /\ ~ In (fst b) (map fst pre)).
Proof. exact first_occ_spec. Qed.
Print Assumptions C15_first_visit_order_meaning.

(* ---- v2: TraverseV1 ------------------------------------------------------------------------------ *)
(* bytes sent to the writer, returned length, error -- walk succeeded or not *)
Theorem C15_exact_once_traverse_v1 :
  forall order root ls ok,
    Forall (fun l => cid_bytes_ok (l_cid l) /\ l_touched l = true) ls ->
    traverse_v1 order root (mktrace ls ok)
    = (enc_payload [root] (first_occ (blocks_of ls)),
       blen (enc_payload [root] (first_occ (blocks_of ls))),
       if ok then None else Some TWalk).
Proof. exact traverse_v1_spec. Qed.
Print Assumptions C15_exact_once_traverse_v1.

(* ---- v2: NewSelectiveWriter(...).WriteTo (repaired counting loader) ------------------------------- *)
(* container layout, announced data size = payload length, returned count = bytes written,
   no ErrSizeMismatch -- for every load sequence, with repeats *)
Theorem C15_exact_once_selective_writer :
  forall order root o ls1 ls2,
    Forall (fun l => l_nread l = blen (l_data l)) ls1 ->
    Forall (fun l => cid_bytes_ok (l_cid l) /\ l_touched l = true) ls2 ->
    blocks_of ls1 = blocks_of ls2 ->
    let o' := apply_opts o in
    let P := enc_payload [root] (first_occ (blocks_of ls2)) in
    (* both paddings can be allocated (make() panics above max_alloc = 2^48; the index padding only
       matters when an index is written) and the payload is below 2^63 bytes: nothing can wrap *)
    (o_dpad o' <=? max_alloc) && ((o_codec o' =? codec_none) || (o_ipad o' <=? max_alloc)) = true ->
    blen P < two63 ->
    let hdr := mkv2 0 0 (51 + o_dpad o') (blen P)
                 (if o_codec o' =? codec_none then 0 else 51 + o_dpad o' + blen P + o_ipad o') in
    let H := pragma ++ enc_v2hdr hdr ++ zerosN (o_dpad o') in
    let recs := map (fun e => (fst (fst (fst e)), snd (fst e)))
                    (place (head_size root) (first_occ (blocks_of ls2))) in
    let tl := if o_codec o' =? codec_none then ([], None)
              else match writer_index order (o_codec o') recs with
                   | Some i => (zerosN (o_ipad o') ++ idx_write i, None)
                   | None => ([], Some TIndex)
                   end in
    selective_write order true root o (mktrace ls1 true) (mktrace ls2 true)
    = Some (mkw (H ++ P ++ fst tl) (blen (H ++ P ++ fst tl)) (snd tl) (blen P)).
Proof. exact selective_write_spec_pads. Qed.
Print Assumptions C15_exact_once_selective_writer.

(* the guard is sound whatever the sizing pass counted (any trace, repaired loader or not):
   no error => header data size = payload length, payload = first occurrences, count = length *)
Theorem C15_announced_size_selective_writer :
  forall order fixed root o tr1 ls2 size w,
    Forall (fun l => cid_bytes_ok (l_cid l) /\ l_touched l = true) ls2 ->
    new_selective_writer fixed root tr1 = Some size ->
    let o' := apply_opts o in
    o_dpad o' < two64 -> size < two63 ->       (* a uint64 option; a size below 2^63 *)
    selective_write order fixed root o tr1 (mktrace ls2 true) = Some w -> w_err w = None ->
    let P := enc_payload [root] (first_occ (blocks_of ls2)) in
    let hdr := mkv2 0 0 (51 + o_dpad o') (blen P)
                 (if o_codec o' =? codec_none then 0 else 51 + o_dpad o' + blen P + o_ipad o') in
    let recs := map (fun e => (fst (fst (fst e)), snd (fst e)))
                    (place (head_size root) (first_occ (blocks_of ls2))) in
    let tl := if o_codec o' =? codec_none then ([], None)
              else match writer_index order (o_codec o') recs with
                   | Some i => (zerosN (o_ipad o') ++ idx_write i, None)
                   | None => ([], Some TIndex)
                   end in
    size = blen P
    /\ w_bytes w = (pragma ++ enc_v2hdr hdr ++ zerosN (o_dpad o')) ++ P ++ fst tl
    /\ w_n w = blen (w_bytes w)
    /\ 51 + o_dpad o' + blen P + (if o_codec o' =? codec_none then 0 else o_ipad o') < two64.
Proof. exact selective_write_sound_pads. Qed.
Print Assumptions C15_announced_size_selective_writer.

(* the loader as it was before the fix: refuted on a load sequence with a repeat ... *)
Theorem C15_announced_size_refuted_before_fix :
  exists order root o ls w,
    Forall (fun l => cid_bytes_ok (l_cid l) /\ l_touched l = true) ls /\
    Forall (fun l => l_nread l = blen (l_data l)) ls /\
    selective_write order false root o (mktrace ls true) (mktrace ls true) = Some w /\
    w_err w = Some TSizeMismatch.
Proof. exact selective_write_unfixed_refuted. Qed.
Print Assumptions C15_announced_size_refuted_before_fix.

(* ... and what did hold of it: without a repeated load it behaved like the repaired one *)
Theorem C15_announced_size_partial_before_fix :
  forall order root o ls1 tr2,
    has_repeat [] (blocks_of ls1) = false ->
    selective_write order false root o (mktrace ls1 true) tr2
    = selective_write order true root o (mktrace ls1 true) tr2.
Proof. exact selective_write_unfixed_partial. Qed.
Print Assumptions C15_announced_size_partial_before_fix.

(* ---- v2: TraverseToFile --------------------------------------------------------------------------- *)
Theorem C15_exact_once_traverse_to_file :
  forall order root o ls,
    Forall (fun l => cid_bytes_ok (l_cid l) /\ l_touched l = true) ls ->
    let o' := apply_opts o in
    let P := enc_payload [root] (first_occ (blocks_of ls)) in
    (o_dpad o' <=? max_alloc) && ((o_codec o' =? codec_none) || (o_ipad o' <=? max_alloc)) = true ->
    blen P < two63 ->
    let hdr := fun size => mkv2 0 0 (51 + o_dpad o') size
                 (if o_codec o' =? codec_none then 0 else 51 + o_dpad o' + size + o_ipad o') in
    let recs := map (fun e => (fst (fst (fst e)), snd (fst e)))
                    (place (head_size root) (first_occ (blocks_of ls))) in
    let tl := if o_codec o' =? codec_none then ([], None)
              else match writer_index order (o_codec o') recs with
                   | Some i => (zerosN (o_ipad o') ++ idx_write i, None)
                   | None => ([], Some TIndex)
                   end in
    traverse_to_file order root o (mktrace ls true)
    = match snd tl with
      | None => ((pragma ++ enc_v2hdr (hdr (blen P)) ++ zerosN (o_dpad o')) ++ P ++ fst tl, None)
      | Some e => ((pragma ++ enc_v2hdr (hdr 0) ++ zerosN (o_dpad o')) ++ P ++ fst tl, Some e)
      end.
Proof. exact traverse_to_file_spec_pads. Qed.
Print Assumptions C15_exact_once_traverse_to_file.

(* every record the teeing loader hands to the index locates exactly that block's section *)
Theorem C15_index_records_locate :
  forall root ls c off,
    In (c, off) (map (fun e => (fst (fst (fst e)), snd (fst e)))
                     (place (head_size root) (first_occ (blocks_of ls)))) ->
    let P := enc_payload [root] (first_occ (blocks_of ls)) in
    exists d, In (c, d) (first_occ (blocks_of ls))
              /\ take (section_size c d) (drop off P) = enc_section c d
              /\ off + section_size c d <= blen P.
Proof. exact v1_recs_locate. Qed.
Print Assumptions C15_index_records_locate.

(* what the code rejects: a data padding that wraps DataOffset around 2^64 *)
Theorem C15_offset_impossible :
  forall o size, two64 <= 51 + o_dpad o -> o_dpad o < two64 ->
    snd (write_v2_header o size) = Some TOffsetImpossible.
Proof. exact write_v2_header_wraps. Qed.
Print Assumptions C15_offset_impossible.

(* ... and a data padding above the allocation limit whose data offset still fits: the header goes
   out, then make() panics *)
Theorem C15_padding_above_alloc_limit_panics :
  forall o size, max_alloc < o_dpad o -> 51 + o_dpad o < two64 ->
    snd (write_v2_header o size) = Some TPanic.
Proof. exact write_v2_header_panics. Qed.
Print Assumptions C15_padding_above_alloc_limit_panics.

(* "data offset fits, index offset wraps" never ends in success: with an index, uint64 paddings and a
   size below 2^63, 51+dpad+size+ipad >= 2^64 forces a padding above the allocation limit, so WriteTo
   panics or has failed earlier -- whatever the walk did *)
Theorem C15_index_offset_wrap_never_succeeds :
  forall order root o tcsize ls ok,
    Forall (fun l => cid_bytes_ok (l_cid l) /\ l_touched l = true) ls ->
    o_dpad o < two64 -> tcsize < two63 ->
    o_codec o =? codec_none = false ->
    two64 <= 51 + o_dpad o + tcsize + o_ipad o ->
    w_err (write_to order root o tcsize (mktrace ls ok)) <> None.
Proof. exact index_offset_wrap_never_succeeds. Qed.
Print Assumptions C15_index_offset_wrap_never_succeeds.

(* ---- root module: SelectiveCar --------------------------------------------------------------------- *)
(* k = number of OnNewCarBlock callbacks registered (with Write, resp. with Prepare for Dump);
   the callback observations are the event log: (callback index, Block) in call order, and
   [reports i evs] is what callback number i was told *)
Theorem C15_exact_once_selective_car :
  forall k roots ls ok,
    fst (fst (sc_write k roots ls ok)) = enc_payload roots (first_occ ls)
    /\ snd (sc_write k roots ls ok) = ok.
Proof. exact sc_write_exact. Qed.
Print Assumptions C15_exact_once_selective_car.

Theorem C15_announced_size_prepare :
  forall roots ls,
    sc_prepare roots ls true
    = Some (blen (enc_payload roots (first_occ ls)), roots, map fst (first_occ ls)).
Proof. exact sc_prepare_spec. Qed.
Print Assumptions C15_announced_size_prepare.

(* Dump after Prepare = Write: bytes and the whole callback event log; Size() is their length.
   The store must still return for each prepared CID the bytes it returned during Prepare. *)
Theorem C15_dump_eq_write :
  forall k store roots ls size hroots cids,
    sc_prepare roots ls true = Some (size, hroots, cids) ->
    Forall (fun b => store (fst b) = Some (snd b)) (first_occ ls) ->
    sc_dump k store hroots cids = sc_write k roots ls true
    /\ size = blen (fst (fst (sc_write k roots ls true))).
Proof. exact sc_dump_eq_write. Qed.
Print Assumptions C15_dump_eq_write.

(* with different numbers of callbacks on the two sides: same bytes, and every callback index
   registered on both sides is told exactly the same reports *)
Theorem C15_dump_reports_eq_write :
  forall kw kd store roots ls size hroots cids,
    sc_prepare roots ls true = Some (size, hroots, cids) ->
    Forall (fun b => store (fst b) = Some (snd b)) (first_occ ls) ->
    fst (fst (sc_dump kd store hroots cids)) = fst (fst (sc_write kw roots ls true))
    /\ forall i, (i < kw)%nat -> (i < kd)%nat ->
         reports i (snd (fst (sc_dump kd store hroots cids)))
         = reports i (snd (fst (sc_write kw roots ls true))).
Proof. exact sc_dump_reports_eq_write. Qed.
Print Assumptions C15_dump_reports_eq_write.

(* for ANY number k of registered callbacks: every callback i < k is told the first occurrences in
   order, each (Offset, Size) being the position of that block's section in the bytes written; all
   callbacks are told the same; no event carries an index >= k *)
Theorem C15_callbacks :
  forall k roots ls ok out evs ok',
    sc_write k roots ls ok = (out, evs, ok') ->
    (forall i, (i < k)%nat ->
       map (fun c => (cb_cid c, cb_data c)) (reports i evs) = first_occ ls
       /\ Forall (fun c => take (cb_size c) (drop (cb_off c) out) = enc_section (cb_cid c) (cb_data c)
                           /\ cb_off c + cb_size c <= blen out) (reports i evs))
    /\ (forall i j, (i < k)%nat -> (j < k)%nat -> reports i evs = reports j evs)
    /\ (forall e, In e evs -> (fst e < k)%nat).
Proof. exact sc_write_callbacks. Qed.
Print Assumptions C15_callbacks.

(* the same for the callbacks given to Prepare and invoked by Dump *)
Theorem C15_callbacks_dump :
  forall k store roots ls size hroots cids out evs ok,
    sc_prepare roots ls true = Some (size, hroots, cids) ->
    Forall (fun b => store (fst b) = Some (snd b)) (first_occ ls) ->
    sc_dump k store hroots cids = (out, evs, ok) ->
    forall i, (i < k)%nat ->
      map (fun c => (cb_cid c, cb_data c)) (reports i evs) = first_occ ls
      /\ Forall (fun c => take (cb_size c) (drop (cb_off c) out) = enc_section (cb_cid c) (cb_data c)
                          /\ cb_off c + cb_size c <= blen out) (reports i evs).
Proof. exact sc_dump_callbacks. Qed.
Print Assumptions C15_callbacks_dump.

(* ---- root module: SelectiveCar over a LIST of Dag entries (root, selector) ---------------------------- *)
(* ds = the Dag entries in order, each with the trace of ITS walk (what that root+selector opens under
   the options; the oracle, recorded from a reference run of the traversal library).  One cidSet and
   one running offset are shared by all entries; the first failing walk aborts the rest. *)
Theorem C15_exact_once_selective_car_dags :
  forall k ds,
    fst (fst (sc_write_dags k ds)) = enc_payload (map fst ds) (first_occ (fst (dag_loads ds)))
    /\ snd (sc_write_dags k ds) = snd (dag_loads ds).
Proof. exact sc_write_dags_exact. Qed.
Print Assumptions C15_exact_once_selective_car_dags.

(* every walk succeeded: header roots = all the Dags' roots in order; payload = first occurrences of
   the concatenation of the per-Dag loads; Prepare announces exactly that *)
Theorem C15_exact_once_selective_car_dags_ok :
  forall k ds,
    Forall (fun d => t_ok (snd d) = true) ds ->
    fst (fst (sc_write_dags k ds))
    = enc_payload (map fst ds) (first_occ (concat (map (fun d => blocks_of (t_loads (snd d))) ds)))
    /\ snd (sc_write_dags k ds) = true.
Proof. exact sc_write_dags_all_ok. Qed.
Print Assumptions C15_exact_once_selective_car_dags_ok.

Theorem C15_announced_size_prepare_dags :
  forall ds,
    Forall (fun d => t_ok (snd d) = true) ds ->
    let bs := first_occ (concat (map (fun d => blocks_of (t_loads (snd d))) ds)) in
    sc_prepare_dags ds = Some (blen (enc_payload (map fst ds) bs), map fst ds, map fst bs).
Proof. exact sc_prepare_dags_all_ok. Qed.
Print Assumptions C15_announced_size_prepare_dags.

(* no Dag entry is lost, whatever earlier entries already wrote: every block any entry's walk opened is
   in the output, and (each walk opening its own root first) so is every entry's root *)
Theorem C15_no_dag_entry_lost :
  forall ds,
    Forall (fun d => t_ok (snd d) = true) ds ->
    let bs := first_occ (concat (map (fun d => blocks_of (t_loads (snd d))) ds)) in
    (forall d c, In d ds -> In c (map fst (blocks_of (t_loads (snd d)))) -> In c (map fst bs))
    /\ (Forall (fun d => exists x rest, blocks_of (t_loads (snd d)) = (fst d, x) :: rest) ds ->
        forall r, In r (map fst ds) -> In r (map fst bs)).
Proof. exact sc_dags_nothing_lost. Qed.
Print Assumptions C15_no_dag_entry_lost.

Theorem C15_dump_eq_write_dags :
  forall k store ds size hroots cids,
    sc_prepare_dags ds = Some (size, hroots, cids) ->
    Forall (fun b => store (fst b) = Some (snd b)) (first_occ (fst (dag_loads ds))) ->
    sc_dump k store hroots cids = sc_write_dags k ds
    /\ size = blen (fst (fst (sc_write_dags k ds))).
Proof. exact sc_dags_dump_eq_write. Qed.
Print Assumptions C15_dump_eq_write_dags.

(* ---- root module: WriteCar / WriteCarWithWalker ------------------------------------------------------ *)
Theorem C15_exact_once_write_car :
  forall roots vs ok,
    write_car roots vs ok = (ld (enc_header roots 1) ++ enc_sections (first_occ vs), ok).
Proof. exact write_car_spec. Qed.
Print Assumptions C15_exact_once_write_car.

(* ---- histories in one process: a write into a failing destination, then fault-free writes ------------ *)
(* the destination of the first SelectiveCar.Write fails at its fk-th Write call (error, or short write);
   whatever that first write was, the following fault-free Write / Prepare answer exactly what they answer
   stand-alone: util.LdWrite carries nothing from one call to the next *)
Theorem C15_legacy_writes_are_independent :
  forall fk short ds1 k ds2,
    snd (fst (sc_history fk short ds1 k ds2)) = sc_write_dags k ds2
    /\ snd (sc_history fk short ds1 k ds2) = sc_prepare_dags ds2.
Proof. exact sc_history_independent. Qed.
Print Assumptions C15_legacy_writes_are_independent.

Theorem C15_write_car_after_failed_write_is_independent :
  forall fk short r1 vs1 ok1 r2 vs2 ok2,
    snd (wc_history fk short r1 vs1 ok1 r2 vs2 ok2) = write_car r2 vs2 ok2.
Proof. exact wc_history_independent. Qed.
Print Assumptions C15_write_car_after_failed_write_is_independent.

(* so after ANY failed first write the second has exactly-once bytes and the announced size *)
Theorem C15_write_after_failed_write_exact :
  forall fk short ds1 k ds2,
    Forall (fun d => t_ok (snd d) = true) ds2 ->
    let bs := first_occ (concat (map (fun d => blocks_of (t_loads (snd d))) ds2)) in
    fst (fst (snd (fst (sc_history fk short ds1 k ds2)))) = enc_payload (map fst ds2) bs
    /\ snd (sc_history fk short ds1 k ds2)
       = Some (blen (enc_payload (map fst ds2) bs), map fst ds2, map fst bs).
Proof. exact sc_history_second_exact. Qed.
Print Assumptions C15_write_after_failed_write_exact.

(* what a failing destination accepted from WriteCar is a prefix of the fault-free output *)
Theorem C15_failed_write_is_a_prefix :
  forall fk short roots vs ok,
    exists rest, fst (write_car roots vs ok) = fst (write_car_faulty fk short roots vs ok) ++ rest.
Proof. exact write_car_faulty_prefix. Qed.
Print Assumptions C15_failed_write_is_a_prefix.

(* ---- the output read back by the sequential reader (C02's L4) ----------------------------------------- *)
Theorem C15_traverse_v1_reads_back :
  forall hok hdrdec o order root ls,
    Forall (fun l => cid_bytes_ok (l_cid l) /\ l_touched l = true) ls ->
    archive_ok hok hdrdec o [root] (first_occ (blocks_of ls)) ->
    br_read_all hok hdrdec o (fst (fst (traverse_v1 order root (mktrace ls true))))
    = Ok (1, [root], mkscan (first_occ (blocks_of ls)) EEof).
Proof. exact traverse_v1_reads_back. Qed.
Print Assumptions C15_traverse_v1_reads_back.
