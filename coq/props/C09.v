(* C09 -- parsers are total and resource-bounded on arbitrary input.
   Only statements closed by [exact]; proofs live in proofs/Termination.v, proofs/Total*.v.

   Reading guide.  [tot_X] (theories/RunTotal.v) is the projected outcome of entry point X on a byte
   string: TOpen e / TEnd e / TErr e / TOk, or TPanic when one of the make() calls the run performs
   (theories/Alloc.v: [X_allocs], the sizes requested from input-declared lengths, in program order)
   exceeds what the Go runtime can allocate at all ([go_max_alloc] = 1<<48, runtime.maxAlloc).
   EFuel is the model's "loop did not terminate within |input|+1 iterations" marker.  "Total" is:
   the outcome is a result or an error whose class is neither EFuel nor EPanic, and it is not TPanic.
   All theorems quantify over EVERY byte string, option row and hash/CBOR oracle. *)
From GoCar Require Import Bytes Varint Cid Header Frame V2Header Scan Index Store Alloc RunTotal.
From GoCarProofs Require Import ScanFacts TotalAlloc TotalIndex TotalMain.

(* ---- (1) totality -------------------------------------------------------------------------------- *)
(* v2 BlockReader: NewBlockReader + Next until error.  The only hypothesis is that the configured
   limits are themselves allocatable (see C09_limit_above_runtime_maximum_refuted). *)
Theorem C09_block_reader_total :
  forall hok hdrdec o file,
    o_maxh o <= go_max_alloc -> o_maxs o <= go_max_alloc ->
    (exists e, tot_br hok hdrdec o file = TOpen e /\ e <> EFuel /\ e <> EPanic) \/
    (exists e, tot_br hok hdrdec o file = TEnd e /\ e <> EFuel /\ e <> EPanic).
Proof. exact tot_br_total. Qed.
Print Assumptions C09_block_reader_total.

(* internal CARv1 reader (NewCarReaderWithoutDefaults + Next) *)
Theorem C09_carv1_reader_total :
  forall hok hdrdec o file,
    o_maxh o <= go_max_alloc -> o_maxs o <= go_max_alloc ->
    (exists e, tot_carv1 hok hdrdec o file = TOpen e /\ e <> EFuel /\ e <> EPanic) \/
    (exists e, tot_carv1 hok hdrdec o file = TEnd e /\ e <> EFuel /\ e <> EPanic).
Proof. exact tot_carv1_total. Qed.
Print Assumptions C09_carv1_reader_total.

(* root module NewCarReader + Next, and LoadCar: no hypothesis at all (its limits are constants) *)
Theorem C09_root_reader_total :
  forall hok hdrdec file,
    (exists e, tot_root hok hdrdec file = TOpen e /\ e <> EFuel /\ e <> EPanic) \/
    (exists e, tot_root hok hdrdec file = TEnd e /\ e <> EFuel /\ e <> EPanic).
Proof. exact tot_root_total. Qed.
Print Assumptions C09_root_reader_total.

Theorem C09_root_loadcar_total :
  forall hok hdrdec file,
    tot_rootload hok hdrdec file = TOk \/
    exists e, tot_rootload hok hdrdec file = TErr e /\ e <> EFuel /\ e <> EPanic.
Proof. exact tot_rootload_total. Qed.
Print Assumptions C09_root_loadcar_total.

(* ReadVersion / ReadHeader, and the fixed CARv2 header *)
Theorem C09_read_version_total :
  forall hdrdec maxh s, maxh <= go_max_alloc ->
    tot_version hdrdec maxh s = TOk \/
    exists e, tot_version hdrdec maxh s = TErr e /\ e <> EFuel /\ e <> EPanic.
Proof. exact tot_version_total. Qed.
Print Assumptions C09_read_version_total.

Theorem C09_v2_header_total :
  forall s, tot_v2hdr s = TOk \/ exists e, tot_v2hdr s = TErr e /\ e <> EFuel /\ e <> EPanic.
Proof. exact tot_v2hdr_total. Qed.
Print Assumptions C09_v2_header_total.

(* index.ReadFrom (with the repaired bucket reader): whatever counts, widths and lengths the bytes
   declare.  The hypothesis says the input itself is shorter than 2^47 bytes (a buffer is grown to
   at most twice what the reader has delivered). *)
Theorem C09_index_read_total :
  forall s, 2 * blen s <= go_max_alloc ->
    tot_idx s = TOk \/ exists e, tot_idx s = TErr e /\ e <> EFuel /\ e <> EPanic.
Proof. exact tot_idx_total. Qed.
Print Assumptions C09_index_read_total.

(* OpenReadWrite on arbitrary existing bytes (store.Resume) *)
Theorem C09_resume_total :
  forall hdrdec o roots file, w_maxh o <= go_max_alloc ->
    tot_resume hdrdec o roots file = TOk \/
    exists e, tot_resume hdrdec o roots file = TErr e /\ e <> EFuel /\ e <> EPanic.
Proof. exact tot_resume_total. Qed.
Print Assumptions C09_resume_total.

(* the guard on the limits cannot be dropped: MaxAllowedSectionSize(1<<62) and nine bytes declaring a
   2^61-byte section make make() panic (replayed on the code: corpus/C09/limit-above-runtime-max.case) *)
Theorem C09_limit_above_runtime_maximum_refuted :
  exists hok hdrdec o file, tot_br hok hdrdec o file = TPanic.
Proof.
  exact (ex_intro _ _ (ex_intro _ _ (ex_intro _ _ (ex_intro _ _ tot_br_huge_limit_panics)))).
Qed.
Print Assumptions C09_limit_above_runtime_maximum_refuted.

(* ---- (2) every buffer is bounded ------------------------------------------------------------------ *)
(* each buffer requested from an input-declared length is within the header or the section limit ... *)
Theorem C09_block_reader_buffers_within_limits :
  forall hok hdrdec o file,
    Forall (fun n => n <= o_maxh o \/ n <= o_maxs o) (br_allocs hok hdrdec o file).
Proof. exact br_allocs_bound. Qed.
Print Assumptions C09_block_reader_buffers_within_limits.
(* ... and all of them together never exceed the input size plus one header and one section limit *)
Theorem C09_block_reader_total_allocation :
  forall hok hdrdec o file,
    sumN (br_allocs hok hdrdec o file) <= blen file + o_maxh o + o_maxs o.
Proof. exact br_allocs_sum. Qed.
Print Assumptions C09_block_reader_total_allocation.

Theorem C09_carv1_reader_buffers_within_limits :
  forall hok hdrdec o file,
    Forall (fun n => n <= o_maxh o \/ n <= o_maxs o) (carv1_allocs hok hdrdec o file) /\
    sumN (carv1_allocs hok hdrdec o file) <= blen file + o_maxh o + o_maxs o.
Proof. exact (fun hok hdrdec o file => conj (carv1_allocs_bound hok hdrdec o file) (carv1_allocs_sum hok hdrdec o file)). Qed.
Print Assumptions C09_carv1_reader_buffers_within_limits.

(* root module: its fixed 32 MiB section limit, and go-cid's fixed 32 MiB digest limit
   (max_digest_alloc -- a constant of the dependency, NOT governed by any go-car option) *)
Theorem C09_root_reader_buffers_bounded :
  forall hok hdrdec file,
    Forall (fun n => n <= root_max_section \/ n <= max_digest_alloc) (root_allocs hok hdrdec file) /\
    sumN (root_allocs hok hdrdec file) <= 2 * blen file + 2 * root_max_section + max_digest_alloc.
Proof. exact (fun hok hdrdec file => conj (root_allocs_bound hok hdrdec file) (root_allocs_sum hok hdrdec file)). Qed.
Print Assumptions C09_root_reader_buffers_bounded.

(* index.ReadFrom: a bucket buffer is at most one chunk (1 MiB) or twice what the reader delivered;
   all of them together at most one chunk plus four times the input -- for ANY declared dataLen *)
Theorem C09_index_buffers_bounded_by_input :
  forall s,
    Forall (fun a => a <= idx_chunk \/ a <= 2 * blen s) (idx_allocs s) /\
    sumN (idx_allocs s) <= idx_chunk + 4 * blen s.
Proof. exact (fun s => conj (idx_allocs_bound s) (idx_allocs_sum s)). Qed.
Print Assumptions C09_index_buffers_bounded_by_input.
(* the allocation log of one bucket is complete: more loop fuel does not change it *)
Theorem C09_index_bucket_schedule_complete :
  forall n avail f, n < two63 -> (bucket_fuel <= f)%nat ->
    bucket_allocs f n avail (N.min n idx_chunk) = read_bucket_allocs n avail.
Proof. exact bucket_fuel_enough. Qed.
Print Assumptions C09_index_bucket_schedule_complete.

(* Resume (OpenReadWrite / OpenReadableWritable on arbitrary existing bytes): every buffer is within the
   CONFIGURED header limit (the version probe and the payload header; repaired, the probe used to run
   under the 32 MiB default: notes/fixes/C09-resume-version-probe-limit.patch) or within go-cid's
   constant (every CID read straight from the file) *)
Theorem C09_resume_buffers_bounded :
  forall hdrdec k can_truncate o roots file faults,
    Forall (fun a => a <= w_maxh o \/ a <= max_digest_alloc)
           (resume_allocs hdrdec k can_truncate o roots file faults).
Proof. exact resume_allocs_bound. Qed.
Print Assumptions C09_resume_buffers_bounded.

(* ---- (3) limits are exact, and checked before allocating --------------------------------------------- *)
(* framing level: a payload of exactly the maximum is read (one request, of exactly that size) ... *)
Theorem C09_limit_exact_accepted :
  forall zeof maxb payload rest,
    blen payload < two63 -> (zeof = true -> blen payload <> 0) -> blen payload = maxb ->
    ld_read zeof maxb (ld payload ++ rest) = Ok (payload, rest) /\
    ld_read_allocs zeof maxb (ld payload ++ rest) = [maxb].
Proof. exact ld_read_limit_exact. Qed.
Print Assumptions C09_limit_exact_accepted.
(* ... one byte more is the too-large error with NOTHING requested *)
Theorem C09_limit_exact_one_more_rejected :
  forall zeof maxb payload rest,
    blen payload < two63 -> blen payload = maxb + 1 ->
    ld_read zeof maxb (ld payload ++ rest) = Err ESectionTooLarge /\
    ld_read_allocs zeof maxb (ld payload ++ rest) = [].
Proof. exact ld_read_limit_over. Qed.
Print Assumptions C09_limit_exact_one_more_rejected.

(* header: exactly MaxAllowedHeaderSize is decoded, one byte more is ErrHeaderTooLarge *)
Theorem C09_header_limit_exact :
  forall hdrdec maxh hb rest roots v,
    blen hb < two63 -> hdrdec hb = Some (roots, v) -> blen hb = maxh ->
    read_header hdrdec maxh (ld hb ++ rest) = Ok (roots, v, rest, ld_size maxh).
Proof. exact read_header_limit_exact. Qed.
Print Assumptions C09_header_limit_exact.
Theorem C09_header_limit_one_more_rejected :
  forall hdrdec maxh hb rest,
    blen hb < two63 -> blen hb = maxh + 1 ->
    read_header hdrdec maxh (ld hb ++ rest) = Err EHeaderTooLarge /\
    ld_read_allocs false maxh (ld hb ++ rest) = [].
Proof. exact read_header_limit_over. Qed.
Print Assumptions C09_header_limit_one_more_rejected.

(* reader level: an archive whose header is exactly at the header limit (sections within the section
   limit, archive_ok) reads back completely; with one byte less of header limit NewBlockReader fails
   with the header error and requests nothing; a section one byte over the section limit ends the scan
   with the section error right after the sections in front of it, with nothing requested for it *)
Theorem C09_block_reader_accepts_exact_limits :
  forall hok hdrdec o roots bs,
    archive_ok hok hdrdec o roots bs ->
    blen (enc_header (Some roots) 1) = o_maxh o ->
    br_read_all hok hdrdec o (enc_payload roots bs) = Ok (1, roots, mkscan bs EEof).
Proof. exact br_limit_exact. Qed.
Print Assumptions C09_block_reader_accepts_exact_limits.
Theorem C09_block_reader_rejects_header_over_limit :
  forall hok hdrdec o roots rest,
    blen (enc_header (Some roots) 1) < two63 -> blen (enc_header (Some roots) 1) = o_maxh o + 1 ->
    br_read_all hok hdrdec o (ld (enc_header (Some roots) 1) ++ rest) = Err EHeaderTooLarge /\
    br_allocs hok hdrdec o (ld (enc_header (Some roots) 1) ++ rest) = [].
Proof. exact br_header_limit_over. Qed.
Print Assumptions C09_block_reader_rejects_header_over_limit.
Theorem C09_scan_rejects_section_over_limit :
  forall hok o pre c d rest,
    Forall (block_ok (o_maxs o)) pre -> (o_trusted o = false -> Forall (hash_good hok) pre) ->
    blen c + blen d < two63 -> blen c + blen d = o_maxs o + 1 ->
    scan_all hok o (enc_sections pre ++ enc_section c d ++ rest) = mkscan pre ESectionTooLarge /\
    ld_read_allocs (o_zeof o) (o_maxs o) (enc_section c d ++ rest) = [].
Proof. exact (fun hok => scan_section_limit_over hok dec_header_canon). Qed.
Print Assumptions C09_scan_rejects_section_over_limit.

(* ---- (4) cumulative allocation of the rescan in store.Resume ------------------------------------------- *)
From GoCarProofs Require Import TotalOverlap.
(* refuted as stated: a section that declares a length shorter than its CID makes the walker seek
   backwards, so the same bytes are parsed again and a digest buffer is requested for each pass.
   A 758-byte file that OpenReadWrite resumes successfully requests more than 16 x 758 bytes (the
   growth is quadratic; replayed on the code with 64 KiB => 0.5 GiB: corpus/C09/overlap-amplification.case).
   LoadIndex, ReadOnly.AllKeysChan and the index generation inside NewReadOnly / OpenReadable share
   the loop shape (known finding "section-shorter-than-its-cid"). *)
Theorem C09_resume_cumulative_allocation_refuted :
  exists hdrdec o roots file,
    16 * blen file < sumN (resume_allocs hdrdec KBlockstore true o roots file []) /\
    exists st, resume hdrdec KBlockstore true o roots file [] = inl st.
Proof.
  exact (ex_intro _ _ (ex_intro _ _ (ex_intro _ _ (ex_intro _ _
           (conj (proj1 (proj2 (proj2 overlap_file_resume_refuted)))
                 (proj2 (proj2 (proj2 overlap_file_resume_refuted)))))))).
Qed.
Print Assumptions C09_resume_cumulative_allocation_refuted.
(* partial, with the executable guard resume_sections_ok (no visited section is shorter than its CID):
   all digest buffers of the rescan together are covered by the payload bytes behind the start
   position, plus one (the last, failing) request within go-cid's constant *)
Theorem C09_resume_cumulative_allocation_partial :
  forall zeof base view fuel pos,
    resume_sections_ok fuel zeof base view pos = true ->
    sumN (resume_scan_allocs fuel zeof base view pos) <= (blen view - pos) + max_digest_alloc.
Proof. exact resume_scan_allocs_sum_guarded. Qed.
Print Assumptions C09_resume_cumulative_allocation_partial.

(* ---- (5) entry points modelled in theories/Transform.v -------------------------------------------------- *)
From GoCar Require Transform.
From GoCarProofs Require Import TotalXform.
(* LoadIndex / GenerateIndex over an io.ReadSeeker, CARv1 or CARv2 source *)
Theorem C09_load_index_total :
  forall hdrdec o all, Transform.x_maxh o <= go_max_alloc ->
    tot_loadindex hdrdec o all = TOk \/
    exists e, tot_loadindex hdrdec o all = TErr e /\ e <> EFuel /\ e <> EPanic.
Proof. exact tot_loadindex_total. Qed.
Print Assumptions C09_load_index_total.
Theorem C09_load_index_buffers_bounded :
  forall hdrdec o all,
    Forall (fun a => a <= Transform.x_maxh o \/ a <= max_digest_alloc) (load_index_allocs hdrdec o all).
Proof. exact load_index_allocs_bound. Qed.
Print Assumptions C09_load_index_buffers_bounded.

(* ExtractV1File (to a new path or in place): the only input-sized buffer is the pragma/header buffer *)
Theorem C09_extract_total :
  forall hdrdec o in_place a, Transform.x_maxh o <= go_max_alloc ->
    tot_extract hdrdec o in_place a = TOk \/
    exists e, tot_extract hdrdec o in_place a = TErr e /\ e <> EFuel /\ e <> EPanic.
Proof. exact tot_extract_total. Qed.
Print Assumptions C09_extract_total.
Theorem C09_extract_buffers_bounded :
  forall o a,
    Forall (fun n => n <= Transform.x_maxh o) (extract_allocs o a) /\
    sumN (extract_allocs o a) <= Transform.x_maxh o.
Proof. exact extract_allocs_bound. Qed.
Print Assumptions C09_extract_buffers_bounded.

(* ReplaceRootsInFile *)
Theorem C09_replace_roots_total :
  forall hdrdec o roots a, Transform.x_maxh o <= go_max_alloc ->
    tot_replace hdrdec o roots a = TOk \/
    exists e, tot_replace hdrdec o roots a = TErr e /\ e <> EFuel /\ e <> EPanic.
Proof. exact tot_replace_total. Qed.
Print Assumptions C09_replace_roots_total.
Theorem C09_replace_roots_buffers_bounded :
  forall hdrdec o a,
    Forall (fun n => n <= Transform.x_maxh o) (replace_allocs hdrdec o a) /\
    sumN (replace_allocs hdrdec o a) <= 2 * Transform.x_maxh o.
Proof. exact replace_allocs_bound. Qed.
Print Assumptions C09_replace_roots_buffers_bounded.

(* ---- (6) LoadIndex / GenerateIndex over every source kind (theories/IndexGen.v) ----------------------- *)
From GoCar Require IndexGen Inspect ReadOnly BlockReaderPos.
From GoCarProofs Require Import TotalGen TotalRO TotalWalk.
(* seekable source or plain io.Reader, CARv1 or CARv2, any StoreIdentityCIDs / MaxIndexCidSize: the section
   loop ends (every iteration moves the source forward, whatever the seek does) and returns or errs *)
Theorem C09_generate_index_total :
  forall hdrdec k o all, IndexGen.g_maxh o <= go_max_alloc ->
    tot_gen hdrdec k o all = TOk \/
    exists e, tot_gen hdrdec k o all = TErr e /\ e <> EFuel /\ e <> EPanic.
Proof. exact tot_gen_total. Qed.
Print Assumptions C09_generate_index_total.
Theorem C09_generate_index_buffers_bounded :
  forall hdrdec fx k o all,
    Forall (fun a => a <= IndexGen.g_maxh o \/ a <= max_digest_alloc) (gen_allocs hdrdec fx k o all).
Proof. exact gen_allocs_bound. Qed.
Print Assumptions C09_generate_index_buffers_bounded.

(* ---- (7) NewReader + Inspect, both modes (theories/Inspect.v) ------------------------------------------ *)
Theorem C09_inspect_total :
  forall hok hdrdec o file validate, o_maxh o <= go_max_alloc ->
    tot_inspect hok hdrdec o file validate = TOk \/
    exists e, tot_inspect hok hdrdec o file validate = TErr e /\ e <> EFuel /\ e <> EPanic.
Proof. exact tot_inspect_total. Qed.
Print Assumptions C09_inspect_total.
Theorem C09_inspect_buffers_bounded :
  forall hok hdrdec o file validate,
    Forall (fun a => a <= o_maxh o \/ a <= max_digest_alloc) (inspect_allocs hok hdrdec o file validate).
Proof. exact inspect_allocs_bound. Qed.
Print Assumptions C09_inspect_buffers_bounded.

(* ---- (8) read-only stores (theories/ReadOnly.v) ---------------------------------------------------------- *)
(* blockstore.NewReadOnly then Get: opens (generating the index or decoding the embedded one) or fails,
   and Get returns the block or an error *)
Theorem C09_readonly_blockstore_total :
  forall hdrdec o file key,
    ReadOnly.q_maxh o <= go_max_alloc -> ReadOnly.q_maxs o <= go_max_alloc -> 2 * blen file <= go_max_alloc ->
    tot_robs hdrdec o file key = TOk \/
    (exists e, tot_robs hdrdec o file key = TOpen e /\ e <> EFuel /\ e <> EPanic) \/
    (exists e, tot_robs hdrdec o file key = TErr e /\ e <> EFuel /\ e <> EPanic).
Proof. exact tot_robs_total. Qed.
Print Assumptions C09_readonly_blockstore_total.
(* storage.OpenReadable then Get (GetStream + ReadAll) *)
Theorem C09_readable_storage_total :
  forall hdrdec o file key,
    ReadOnly.q_maxh o <= go_max_alloc -> ReadOnly.q_maxs o <= go_max_alloc -> 2 * blen file <= go_max_alloc ->
    tot_storage hdrdec o file key = TOk \/
    (exists e, tot_storage hdrdec o file key = TOpen e /\ e <> EFuel /\ e <> EPanic) \/
    (exists e, tot_storage hdrdec o file key = TErr e /\ e <> EFuel /\ e <> EPanic).
Proof. exact tot_storage_total. Qed.
Print Assumptions C09_readable_storage_total.
(* AllKeysChan: the walk ends; what reaches the error handler is an ordinary error *)
Theorem C09_all_keys_total :
  forall hdrdec s,
    match ReadOnly.ro_keys hdrdec s with
    | ReadOnly.KOpenErr e => e <> EFuel /\ e <> EPanic
    | ReadOnly.KKeys _ (Some e) => e <> EFuel /\ e <> EPanic
    | ReadOnly.KKeys _ None => True
    end.
Proof. exact ro_keys_total. Qed.
Print Assumptions C09_all_keys_total.
(* opening: header buffers within MaxAllowedHeaderSize, digest buffers within go-cid's constant, buckets of
   an embedded index within 1 MiB or twice the file; a query: section buffers within
   MaxAllowedSectionSize (Get) or digest buffers (Has / GetSize / GetStream) *)
Theorem C09_readonly_open_buffers_bounded :
  forall hdrdec o file,
    Forall (fun a => a <= ReadOnly.q_maxh o \/ a <= ReadOnly.q_maxs o \/ a <= max_digest_alloc \/
                     a <= idx_chunk \/ a <= 2 * blen file) (ro_open_allocs hdrdec o file) /\
    Forall (fun a => a <= ReadOnly.q_maxh o \/ a <= ReadOnly.q_maxs o \/ a <= max_digest_alloc \/
                     a <= idx_chunk \/ a <= 2 * blen file) (sto_open_allocs hdrdec o file).
Proof. exact (fun hdrdec o file => conj (ro_open_allocs_bound hdrdec o file) (sto_open_allocs_bound hdrdec o file)). Qed.
Print Assumptions C09_readonly_open_buffers_bounded.
Theorem C09_find_cid_buffers_bounded :
  forall view key kp whole zeof maxs readbytes offs,
    Forall (fun a => a <= maxs \/ a <= max_digest_alloc)
           (find_cid_allocs view offs key kp whole zeof maxs readbytes).
Proof. exact (find_cid_allocs_bound dec_header_canon). Qed.
Print Assumptions C09_find_cid_buffers_bounded.

(* ---- (9) BlockReader.Next / SkipNext in any order (theories/BlockReaderPos.v) ----------------------------- *)
(* a reader driven by ANY string of Next (true) / SkipNext (false) choices longer than the file has run
   into an error -- i.e. the `for { Next / SkipNext }` loop terminates on every input -- and that error,
   like the one of a failed NewBlockReader, is an ordinary one *)
Theorem C09_next_skipnext_total :
  forall hok hdrdec o seek file w,
    o_maxh o <= go_max_alloc -> o_maxs o <= go_max_alloc -> (length file < length w)%nat ->
    (exists e, tot_brskip hok hdrdec o seek file w = TOpen e /\ e <> EFuel /\ e <> EPanic) \/
    (exists e, tot_brskip hok hdrdec o seek file w = TEnd e /\ e <> EFuel /\ e <> EPanic).
Proof. exact tot_brskip_total. Qed.
Print Assumptions C09_next_skipnext_total.
Theorem C09_next_skipnext_buffers_bounded :
  forall hok hdrdec o seek file w,
    Forall (fun a => a <= o_maxh o \/ a <= o_maxs o \/ a <= max_digest_alloc)
           (brp_run_allocs hok hdrdec o seek file w).
Proof. exact brp_run_allocs_bound. Qed.
Print Assumptions C09_next_skipnext_buffers_bounded.

(* ---- (10) Resume's version probe obeys the configured header limit (repaired) ------------------------------ *)
(* for EVERY input and option set: a first header that declares more than MaxAllowedHeaderSize makes
   OpenReadWrite / OpenReadableWritable fail with ErrHeaderTooLarge and NOTHING is requested.  Before
   notes/fixes/C09-resume-version-probe-limit.patch the probe ran under the 32 MiB default (with a 1 KiB limit,
   four bytes declaring 24 MiB requested 24 MiB and failed with unexpected EOF:
   corpus/C09/resume-first-header-over-limit.case, now a regression case). *)
Theorem C09_resume_first_header_over_limit_rejected :
  forall hdrdec k can_truncate o roots l rest faults,
    l < two63 -> w_maxh o < l ->
    resume_allocs hdrdec k can_truncate o roots (put_uv l ++ rest) faults = [] /\
    exists dv, resume hdrdec k can_truncate o roots (put_uv l ++ rest) faults = inr (EHeaderTooLarge, dv).
Proof. exact resume_first_header_over_limit. Qed.
Print Assumptions C09_resume_first_header_over_limit_rejected.
(* non-vacuity: the former witness *)
Theorem C09_resume_first_header_over_limit_example :
  resume_allocs dec_header_canon KBlockstore true probe_wopts [] probe_file [] = [] /\
  tot_resume dec_header_canon probe_wopts [] probe_file = TErr EHeaderTooLarge.
Proof. exact resume_probe_over_limit. Qed.
Print Assumptions C09_resume_first_header_over_limit_example.

(* ---- (11) the end of the stream is terminal: an iterator called again after io.EOF answers io.EOF again ---- *)
(* (the harness calls every iterator twice more after its first terminal result; RunTotal.model_again predicts
   those calls after a clean EOF, incl. the ZeroLengthSectionAsEOF case where the stream is NOT exhausted) *)
Theorem C09_end_of_stream_is_terminal :
  forall hok o,
    next_block hok o [] = Err EEof /\
    next_block_root hok [] = Err EEof /\
    (forall k, again_next hok k o [] = repeat tag_eof k) /\
    (forall st, BlockReaderPos.vis st = [] ->
       BlockReaderPos.brp_next hok o st = Err EEof /\ BlockReaderPos.brp_skip o st = Err EEof /\
       BlockReaderPos.end_state EEof st = st) /\
    (forall w st, BlockReaderPos.vis st = [] -> w <> [] ->
       BlockReaderPos.brp_walk hok o w st = ([], (Some EEof, st))).
Proof.
  exact (fun hok o => conj (next_block_at_end hok o) (conj (next_block_root_at_end hok)
          (conj (again_next_at_end hok o) (conj (brp_at_end hok o) (brp_walk_at_end hok o))))).
Qed.
Print Assumptions C09_end_of_stream_is_terminal.

(* ---- (12) cumulative allocation, alloc <= a * |input| + b, beyond the sequential readers and the index ----- *)
From GoCarProofs Require Import TotalSum.
(* NewReader + Inspect(validate), ANY file, no guard: Inspect refuses a section shorter than its CID, so every
   digest buffer is backed by bytes of its own section *)
Theorem C09_inspect_total_allocation :
  forall hok hdrdec o file validate,
    sumN (inspect_allocs hok hdrdec o file validate) <= blen file + 2 * o_maxh o + max_digest_alloc.
Proof. exact inspect_allocs_sum. Qed.
Print Assumptions C09_inspect_total_allocation.
(* NewReadOnly(backing, nil): linear when the index is embedded (any bytes) or when no visited section is
   shorter than its CID (executable guard ro_open_ok); refuted without the guard by the 758-byte file that
   also refutes Resume (known finding section-shorter-than-its-cid) *)
Theorem C09_readonly_open_total_allocation_partial :
  forall hdrdec o file, ro_open_ok hdrdec o file = true ->
    sumN (ro_open_allocs hdrdec o file) <= 4 * blen file + 4 * ReadOnly.q_maxh o + max_digest_alloc + idx_chunk.
Proof. exact ro_open_allocs_sum_guarded. Qed.
Print Assumptions C09_readonly_open_total_allocation_partial.
Theorem C09_readonly_open_total_allocation_refuted :
  exists hdrdec o file,
    ro_open_ok hdrdec o file = false /\
    16 * blen file < sumN (ro_open_allocs hdrdec o file) /\
    exists s, ReadOnly.ro_open hdrdec o file None = Ok s.
Proof. exact (ex_intro _ _ (ex_intro _ _ (ex_intro _ _ ro_open_cumulative_refuted))). Qed.
Print Assumptions C09_readonly_open_total_allocation_refuted.
(* the index generation shared by NewReadOnly, OpenReadable and GenerateIndex over a ReaderAt, same guard *)
Theorem C09_load_records_total_allocation_partial :
  forall hdrdec o base src, load_records_ok hdrdec o base src = true ->
    sumN (load_records_allocs hdrdec o base src) <= blen src + 2 * ReadOnly.q_maxh o + max_digest_alloc.
Proof. exact load_records_allocs_sum_guarded. Qed.
Print Assumptions C09_load_records_total_allocation_partial.
