(* C11 -- index serialization is canonical and lossless.
   Only statements closed by [exact]; proofs live in proofs/Index*.v.

   Conventions used in every statement below (written out, no wrapper definitions):
   * [srt] stands for Go's sort.Sort on a bucket's records.  sort.Sort is not stable, so nothing is
     assumed of it beyond its contract: the result is a permutation of the input and ascends by
     digest.  (The executable model instantiates it with a stable insertion sort,
     [sort_by_digest], which meets the contract: C11_model_sort_meets_contract.)
   * records: offset and hash code are uint64, the bucket width |digest|+8 is within the limit
     Unmarshal enforces (32 MiB); the whole record set fits one Go allocation (2^48 bytes), and for
     the multihash codec the number of distinct hash codes fits the int32 count field. *)
From Coq Require Import Permutation Sorting.Sorted.
From GoCar Require Import Bytes Varint Cid Index.
From GoCar Require Import Header Frame V2Header Scan IndexGen.
From GoCarProofs Require Import BytesFacts CidFacts IndexKv IndexSort IndexCompact IndexSearch IndexRoundtrip
  IndexLoad IndexCanon IndexGenFacts IndexGenLookup.

Theorem C11_model_sort_meets_contract :
  forall l, Permutation (sort_by_digest l) l /\
            StronglySorted (fun a b => bytes_leb (r_digest a) (r_digest b) = true) (sort_by_digest l).
Proof. exact sort_by_digest_contract. Qed.
Print Assumptions C11_model_sort_meets_contract.

(* (1) write then read: the index comes back unchanged (hence answers every GetAll / ForEach
   identically), and the bytes after it are left untouched -- for every record list, both codecs,
   any behaviour of sort.Sort within its contract. *)
Theorem C11_roundtrip :
  forall (srt : list irec -> list irec) codec i0 rs rest,
    (forall l, Permutation (srt l) l /\
               StronglySorted (fun a b => bytes_leb (r_digest a) (r_digest b) = true) (srt l)) ->
    idx_new codec = Some i0 ->
    Forall (fun r => r_off r < two64 /\ r_code r < two64 /\ blen (r_digest r) + 8 <= max_width) rs ->
    (blen (compact rs) <= max_alloc /\
     (codec = codec_mh_sorted -> N.of_nat (length (group_by r_code rs)) < two31)) ->
    idx_read (idx_write (idx_load_with srt rs i0) ++ rest) = Ok (idx_load_with srt rs i0, rest).
Proof. exact c11_roundtrip. Qed.
Print Assumptions C11_roundtrip.

(* (1') whatever index.ReadFrom accepts -- from ANY byte string -- round-trips exactly *)
Theorem C11_roundtrip_of_anything_read :
  forall s i rest rest',
    idx_read s = Ok (i, rest) -> idx_read (idx_write i ++ rest') = Ok (i, rest').
Proof. exact idx_read_then_roundtrip. Qed.
Print Assumptions C11_roundtrip_of_anything_read.

(* the boundary of (1): a bucket wider than 32 MiB is written but refused when read back *)
Theorem C11_roundtrip_width_limit :
  forall w data rest, max_width < w -> w < two32 ->
    swi_unmarshal (swi_marshal (w, data) ++ rest) = Err EOther.
Proof. exact swi_unmarshal_rejects_wide. Qed.
Print Assumptions C11_roundtrip_width_limit.

(* (2) the byte count WriteTo reports (computed field by field in the Go code) is the number of
   bytes written -- every index value *)
Theorem C11_length : forall i, idx_write_len i = blen (idx_write i).
Proof. exact idx_write_len_correct. Qed.
Print Assumptions C11_length.

(* (3) stored order: codes ascend, widths ascend inside a code, digests ascend inside a bucket
   ([idx_sortedb] is the executable check the harness also runs on the implementation's bytes) *)
Theorem C11_sorted :
  forall (srt : list irec -> list irec),
    (forall l, Permutation (srt l) l /\
               StronglySorted (fun a b => bytes_leb (r_digest a) (r_digest b) = true) (srt l)) ->
  forall codec i0 rs,
    idx_new codec = Some i0 ->
    Forall (fun r => r_off r < two64 /\ r_code r < two64 /\ blen (r_digest r) + 8 <= max_width) rs ->
    idx_sortedb (idx_load_with srt rs i0) = true.
Proof. exact idx_load_sortedb. Qed.
Print Assumptions C11_sorted.

(* (4) the serialized form depends only on the multiset of records -- not on the load order, not on
   what sort.Sort does with ties -- once every bucket is put in (digest, offset) order [idx_canon];
   the base index may be any index with ascending keys (in particular a fresh one) *)
Theorem C11_order_independent :
  forall (srt srt' : list irec -> list irec) i0 rs rs',
    (forall l, Permutation (srt l) l /\
               StronglySorted (fun a b => bytes_leb (r_digest a) (r_digest b) = true) (srt l)) ->
    (forall l, Permutation (srt' l) l /\
               StronglySorted (fun a b => bytes_leb (r_digest a) (r_digest b) = true) (srt' l)) ->
    idx_keys_sorted i0 ->
    Forall (fun r => r_off r < two64 /\ r_code r < two64 /\ blen (r_digest r) + 8 <= max_width) rs ->
    Permutation rs rs' ->
    idx_write (idx_canon (idx_load_with srt rs i0)) = idx_write (idx_canon (idx_load_with srt' rs' i0)).
Proof. exact c11_order_independent. Qed.
Print Assumptions C11_order_independent.

(* ... and [idx_canon] uses exactly the freedom the format leaves: on a loaded bucket it permutes the
   entries without changing the sequence of digests (so it only reorders runs of equal digests) *)
Theorem C11_canon_only_reorders_equal_digest_runs :
  forall w l,
    8 <= w -> Forall (fun r => rec_width r = w) l -> Forall (fun r => r_off r < two64) l ->
    StronglySorted (fun a b => bytes_leb (r_digest a) (r_digest b) = true) l ->
    Permutation (swi_foreach (swi_canon (w, compact l))) (swi_foreach (w, compact l)) /\
    map fst (swi_foreach (swi_canon (w, compact l))) = map fst (swi_foreach (w, compact l)).
Proof. exact swi_canon_foreach. Qed.
Print Assumptions C11_canon_only_reorders_equal_digest_runs.

(* (4') no two records with one key (digest for car-index-sorted, (code, digest) for
   car-multihash-index-sorted): the bytes themselves are equal, no canonicalisation needed *)
Theorem C11_bytes_equal_without_equal_digests :
  forall (srt srt' : list irec -> list irec) codec i0 rs rs',
    (forall l, Permutation (srt l) l /\
               StronglySorted (fun a b => bytes_leb (r_digest a) (r_digest b) = true) (srt l)) ->
    (forall l, Permutation (srt' l) l /\
               StronglySorted (fun a b => bytes_leb (r_digest a) (r_digest b) = true) (srt' l)) ->
    idx_new codec = Some i0 ->
    Permutation rs rs' ->
    NoDup (map (fun r => (if codec =? codec_sorted then 0 else r_code r, r_digest r)) rs) ->
    idx_write (idx_load_with srt rs i0) = idx_write (idx_load_with srt' rs' i0).
Proof. exact c11_bytes_equal. Qed.
Print Assumptions C11_bytes_equal_without_equal_digests.

(* (5) lookups on a loaded index return exactly (as a multiset) the offsets of the records carrying
   the key: binary search + forward scan = linear specification (L6) *)
Theorem C11_lookup_exact :
  forall (srt : list irec -> list irec),
    (forall l, Permutation (srt l) l /\
               StronglySorted (fun a b => bytes_leb (r_digest a) (r_digest b) = true) (srt l)) ->
  forall codec i0 rs code d,
    idx_new codec = Some i0 ->
    Forall (fun r => r_off r < two64 /\ r_code r < two64 /\ blen (r_digest r) + 8 <= max_width) rs ->
    blen (compact rs) <= max_alloc ->
    Permutation (idx_getall (idx_load_with srt rs i0) code d)
                (if codec =? codec_sorted then spec_offsets_digest rs d else spec_offsets_mh rs code d).
Proof. exact idx_getall_load. Qed.
Print Assumptions C11_lookup_exact.

(* (6) a writing session keeps its records in an insertion index ([ii_load rs []], [rs] in write
   order = payload order); Finalize flattens it.  Regenerating from the finished payload loads the
   same records in payload order.  The two agree: same canonical bytes, same answer to every lookup,
   and identical bytes when no two sections share a key. *)
Theorem C11_flatten_vs_regen_canonical :
  forall (srt srt' : list irec -> list irec),
    (forall l, Permutation (srt l) l /\
               StronglySorted (fun a b => bytes_leb (r_digest a) (r_digest b) = true) (srt l)) ->
    (forall l, Permutation (srt' l) l /\
               StronglySorted (fun a b => bytes_leb (r_digest a) (r_digest b) = true) (srt' l)) ->
  forall codec i0 rs,
    idx_new codec = Some i0 ->
    Forall (fun r => r_off r < two64 /\ r_code r < two64 /\ blen (r_digest r) + 8 <= max_width) rs ->
    exists fi, ii_flatten_with srt codec (ii_load rs []) = Some fi /\
               idx_canon fi = idx_canon (idx_load_with srt' rs i0).
Proof. exact flatten_canon_regen. Qed.
Print Assumptions C11_flatten_vs_regen_canonical.

Theorem C11_flatten_vs_regen_lookups :
  forall (srt srt' : list irec -> list irec) codec i0 rs code d,
    (forall l, Permutation (srt l) l /\
               StronglySorted (fun a b => bytes_leb (r_digest a) (r_digest b) = true) (srt l)) ->
    (forall l, Permutation (srt' l) l /\
               StronglySorted (fun a b => bytes_leb (r_digest a) (r_digest b) = true) (srt' l)) ->
    idx_new codec = Some i0 ->
    Forall (fun r => r_off r < two64 /\ r_code r < two64 /\ blen (r_digest r) + 8 <= max_width) rs ->
    blen (compact rs) <= max_alloc ->
    exists fi, ii_flatten_with srt codec (ii_load rs []) = Some fi /\
               Permutation (idx_getall fi code d) (idx_getall (idx_load_with srt' rs i0) code d).
Proof. exact c11_flatten_lookups. Qed.
Print Assumptions C11_flatten_vs_regen_lookups.

Theorem C11_flatten_vs_regen_bytes :
  forall (srt srt' : list irec -> list irec),
    (forall l, Permutation (srt l) l /\
               StronglySorted (fun a b => bytes_leb (r_digest a) (r_digest b) = true) (srt l)) ->
    (forall l, Permutation (srt' l) l /\
               StronglySorted (fun a b => bytes_leb (r_digest a) (r_digest b) = true) (srt' l)) ->
  forall codec i0 rs,
    idx_new codec = Some i0 ->
    NoDup (map (fun r => (if codec =? codec_sorted then 0 else r_code r, r_digest r)) rs) ->
    ii_flatten_with srt codec (ii_load rs []) = Some (idx_load_with srt' rs i0).
Proof. exact flatten_eq_regen_noties. Qed.
Print Assumptions C11_flatten_vs_regen_bytes.

(* (6') the same with the regenerated side spelled out (uses C03): the session wrote the sections
   [bs] after the header of [roots]; its insertion index holds their records; regenerating is
   LoadIndex over the finished payload, from any kind of source *)
Theorem C11_flatten_vs_regenerated_from_payload :
  forall (srt srt' : list irec -> list irec) hdrdec k o roots bs codec i0,
    (forall l, Permutation (srt l) l /\
               StronglySorted (fun a b => bytes_leb (r_digest a) (r_digest b) = true) (srt l)) ->
    (forall l, Permutation (srt' l) l /\
               StronglySorted (fun a b => bytes_leb (r_digest a) (r_digest b) = true) (srt' l)) ->
    (hdrdec (enc_header (Some roots) 1) = Some (roots, 1) /\
     blen (enc_header (Some roots) 1) <= g_maxh o /\ blen (enc_header (Some roots) 1) < two63) ->
    Forall (fun b : block => exists p, cid_ok p /\ fst b = cid_enc p /\
                                       blen (c_digest p) + 8 <= max_width /\
                                       blen (fst b) + blen (snd b) < two63) bs ->
    Forall (fun b : block => section_indexed o (fst b) = true -> blen (fst b) <= g_max_cid o) bs ->
    blen (enc_payload roots bs) < two63 -> idx_new codec = Some i0 ->
    exists fi recs,
      ii_flatten_with srt codec
        (ii_load (section_recs o (ld_size (blen (enc_header (Some roots) 1))) bs) []) = Some fi /\
      load_index hdrdec k o (enc_payload roots bs) = Ok recs /\
      idx_canon fi = idx_canon (idx_load_with srt' recs i0) /\
      (NoDup (map (fun r => (if codec =? codec_sorted then 0 else r_code r, r_digest r)) recs) ->
       fi = idx_load_with srt' recs i0).
Proof. exact flatten_vs_regenerated_payload. Qed.
Print Assumptions C11_flatten_vs_regenerated_from_payload.

(* the insertion index itself: GetAll yields the offsets of the records with that digest in
   insertion order (LLRB InsertNoReplace keeps equal keys in arrival order) *)
Theorem C11_insertion_index_lookup :
  forall rs d, ii_getall d (ii_load rs []) = spec_offsets_digest rs d.
Proof. exact ii_getall_load. Qed.
Print Assumptions C11_insertion_index_lookup.

(* ---- InsertionIndex.Marshal / Unmarshal (the CBOR-framed form; not an on-disk CARv2 codec) ---------
   The code as it is does NOT satisfy the property for this index kind; the statements below are the
   refutations (witnesses replayed on the real code: corpus/C11/insertion-cbor.case, known findings
   insertion-index-{roundtrip,lossy,length}), the exact extent of the failure, and what does hold.
   [recdec] is the CBOR decoder (whyrusleeping/cbor, a dependency) on the stream after the count. *)
From GoCarProofs Require Import IndexInsertionCbor.

(* round trip: refuted by a one-record index reachable by an insert, for EVERY decoder behaviour *)
Theorem C11_insertion_index_roundtrip_refuted :
  exists ii, (exists rs, ii = ii_load rs []) /\
             forall recdec r, ii_unmarshal recdec (ii_marshal ii) <> Ok r.
Proof. exact ii_roundtrip_refuted. Qed.
Print Assumptions C11_insertion_index_roundtrip_refuted.

(* in fact no non-empty index ever comes back ... *)
Theorem C11_insertion_index_roundtrip_never :
  forall recdec ii rest, ii <> [] -> N.of_nat (length ii) < two63 ->
    forall r, ii_unmarshal recdec (ii_marshal ii ++ rest) <> Ok r.
Proof. exact ii_roundtrip_never. Qed.
Print Assumptions C11_insertion_index_roundtrip_never.

(* ... and if the decoder accepts what the encoder wrote, Unmarshal panics (newRecordDigest on the
   zero Cid) *)
Theorem C11_insertion_index_roundtrip_panics :
  forall recdec ii rest, ii <> [] -> N.of_nat (length ii) < two63 ->
    (forall off tl, recdec (ii_rec_cbor off ++ tl) = Ok tl) ->
    ii_unmarshal recdec (ii_marshal ii ++ rest) = Err EPanic.
Proof. exact ii_roundtrip_panics. Qed.
Print Assumptions C11_insertion_index_roundtrip_panics.

(* partial (guard: the index is empty): the empty index round-trips, trailing bytes untouched *)
Theorem C11_insertion_index_roundtrip_partial :
  forall recdec rest, ii_unmarshal recdec (ii_marshal [] ++ rest) = Ok ([], rest).
Proof. exact ii_unmarshal_marshal_nil. Qed.
Print Assumptions C11_insertion_index_roundtrip_partial.

(* canonicity / losslessness: refuted -- two different indexes (different answers to a lookup) with
   identical bytes; Marshal depends on the offsets only *)
Theorem C11_insertion_index_lossless_refuted :
  exists ii ii', ii <> ii' /\ ii_marshal ii = ii_marshal ii' /\
                 ii_getall [xaa; xbb; xcc; xdd] ii <> ii_getall [xaa; xbb; xcc; xdd] ii'.
Proof. exact ii_marshal_not_injective_refuted. Qed.
Print Assumptions C11_insertion_index_lossless_refuted.

Theorem C11_insertion_index_marshal_forgets_cids :
  forall ii ii', map r_off ii = map r_off ii' -> ii_marshal ii = ii_marshal ii'.
Proof. exact ii_marshal_forgets_cids. Qed.
Print Assumptions C11_insertion_index_marshal_forgets_cids.

(* reported byte count: the constant 8; right exactly for the empty index *)
Theorem C11_insertion_index_length_refuted :
  exists ii, ii_marshal_len ii = 8 /\ blen (ii_marshal ii) = 24.
Proof. exact ii_marshal_len_refuted. Qed.
Print Assumptions C11_insertion_index_length_refuted.

Theorem C11_insertion_index_length_partial :
  forall ii, ii_marshal_len ii = blen (ii_marshal ii) <-> ii = [].
Proof. exact ii_marshal_len_right_iff_empty. Qed.
Print Assumptions C11_insertion_index_length_partial.

(* ---- a SECOND Load on one sorted index ------------------------------------------------------------------
   C11 (and C03) speak of an index loaded once; these statements pin down what the code does when
   Load is called again (exercised by harness kind idxload2): the buckets named by the new records --
   by width for car-index-sorted, the whole per-code index for car-multihash-index-sorted -- are
   REPLACED, the others kept.  The Index.Load doc comment says "inserts"; InsertionIndex.Load does. *)
From GoCarProofs Require Import IndexLoadTwice.

Theorem C11_second_load_replaces_bucket_sorted :
  forall (srt : list irec -> list irec),
    (forall l, Permutation (srt l) l /\
               StronglySorted (fun a b => bytes_leb (r_digest a) (r_digest b) = true) (srt l)) ->
  forall rs1 rs2 d,
    Forall (fun r => r_off r < two64 /\ r_code r < two64 /\ blen (r_digest r) + 8 <= max_width) rs1 ->
    blen (compact rs1) <= max_alloc ->
    Forall (fun r => r_off r < two64 /\ r_code r < two64 /\ blen (r_digest r) + 8 <= max_width) rs2 ->
    blen (compact rs2) <= max_alloc ->
    Permutation (mwi_getall (mwi_load_with srt rs2 (mwi_load_with srt rs1 [])) d)
                (if existsb (fun r => blen (r_digest r) + 8 =? blen d + 8) rs2
                 then spec_offsets_digest rs2 d else spec_offsets_digest rs1 d).
Proof. exact mwi_second_load_replaces. Qed.
Print Assumptions C11_second_load_replaces_bucket_sorted.

Theorem C11_second_load_replaces_code_multihash :
  forall (srt : list irec -> list irec),
    (forall l, Permutation (srt l) l /\
               StronglySorted (fun a b => bytes_leb (r_digest a) (r_digest b) = true) (srt l)) ->
  forall rs1 rs2 code d,
    Forall (fun r => r_off r < two64 /\ r_code r < two64 /\ blen (r_digest r) + 8 <= max_width) rs1 ->
    blen (compact rs1) <= max_alloc ->
    Forall (fun r => r_off r < two64 /\ r_code r < two64 /\ blen (r_digest r) + 8 <= max_width) rs2 ->
    blen (compact rs2) <= max_alloc ->
    Permutation (mh_getall (mh_load_with srt rs2 (mh_load_with srt rs1 [])) code d)
                (if existsb (fun r => r_code r =? code) rs2
                 then spec_offsets_mh rs2 code d else spec_offsets_mh rs1 code d).
Proof. exact mh_second_load_replaces. Qed.
Print Assumptions C11_second_load_replaces_code_multihash.

(* "Load is additive" is false of the sorted indexes: a record loaded first is gone after a second
   Load of another record with its width and code (witness replayed: corpus/C11/load-twice.case) *)
Theorem C11_load_additive_refuted :
  exists codec i0 rs1 rs2 c d,
    idx_new codec = Some i0 /\
    idx_getall (idx_load rs2 (idx_load rs1 i0)) c d = [] /\
    idx_getall (idx_load (rs1 ++ rs2) i0) c d = [100].
Proof. exact load_not_additive_refuted. Qed.
Print Assumptions C11_load_additive_refuted.

(* ... and true of the insertion index *)
Theorem C11_insertion_index_load_additive :
  forall rs1 rs2, ii_load rs2 (ii_load rs1 []) = ii_load (rs1 ++ rs2) [].
Proof. exact ii_load_additive. Qed.
Print Assumptions C11_insertion_index_load_additive.

(* ---- index.GetFirst, InsertionIndex.Get ------------------------------------------------------------------- *)
From GoCarProofs Require Import IndexGetFirst.

(* GetFirst = the head of GetAll's callback sequence, ErrNotFound when it is empty: every index value *)
Theorem C11_get_first_is_head_of_get_all :
  forall i code d,
    idx_getfirst i code d = match idx_getall i code d with [] => Err ENotFound | o :: _ => Ok o end.
Proof. exact idx_getfirst_head. Qed.
Print Assumptions C11_get_first_is_head_of_get_all.

Theorem C11_get_first_is_head_of_get_all_insertion_index :
  forall d ii,
    ii_getfirst d ii = match ii_getall d ii with [] => Err ENotFound | o :: _ => Ok o end.
Proof. exact ii_getfirst_head. Qed.
Print Assumptions C11_get_first_is_head_of_get_all_insertion_index.

(* on a loaded index it is the offset of a record carrying the key; not found exactly when none does *)
Theorem C11_get_first_of_loaded_index :
  forall (srt : list irec -> list irec) codec i0 rs code d,
    (forall l, Permutation (srt l) l /\
               StronglySorted (fun a b => bytes_leb (r_digest a) (r_digest b) = true) (srt l)) ->
    idx_new codec = Some i0 ->
    Forall (fun r => r_off r < two64 /\ r_code r < two64 /\ blen (r_digest r) + 8 <= max_width) rs ->
    blen (compact rs) <= max_alloc ->
    match idx_getfirst (idx_load_with srt rs i0) code d with
    | Ok o => In o (if codec =? codec_sorted then spec_offsets_digest rs d else spec_offsets_mh rs code d)
    | Err e => e = ENotFound /\
               (if codec =? codec_sorted then spec_offsets_digest rs d else spec_offsets_mh rs code d) = []
    end.
Proof. exact idx_getfirst_load. Qed.
Print Assumptions C11_get_first_of_loaded_index.

(* InsertionIndex.Get: [choose] is llrb.Get's pick among the records with the key's digest (it depends
   on the tree's shape; only "one of them, none iff there is none" is assumed).  Get answers with SOME
   record of that DIGEST -- also when the key is a different CID (another codec or hash function) *)
Theorem C11_insertion_index_get_returns_a_record_with_the_digest :
  forall (choose : list irec -> option irec) d ii,
    (forall l, match choose l with Some r => In r l | None => l = [] end) ->
    match ii_get_with choose d ii with
    | Ok o => exists r, In r ii /\ r_digest r = d /\ r_off r = o
    | Err e => e = ENotFound /\ forall r, In r ii -> r_digest r <> d
    end.
Proof. exact ii_get_some_record_with_digest. Qed.
Print Assumptions C11_insertion_index_get_returns_a_record_with_the_digest.

Theorem C11_insertion_index_get_ignores_the_cid :
  forall (choose : list irec -> option irec) r,
    (forall l, match choose l with Some r => In r l | None => l = [] end) ->
    ii_get_with choose (r_digest r) (ii_load [r] []) = Ok (r_off r).
Proof. exact ii_get_ignores_cid. Qed.
Print Assumptions C11_insertion_index_get_ignores_the_cid.
