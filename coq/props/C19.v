(* placeholder until the proofs are in *)
From GoCar Require Import Bytes.
