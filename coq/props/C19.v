(* C19 -- CLI outputs are valid archives and mean what the library says.
   Only statements closed by [exact]; proofs are in proofs/Cli*.v, Examples beside them in
   proofs/CliExamples.v.

   Reading guide.  Every theorem quantifies over
     hok     the hash oracle (does data hash to this CID?), hdrdec  the CBOR header decoder oracle,
             of which only [hdrdec pragma_body = Some ([], 2)] is assumed, plus what it makes of the
             header bytes of the archive at hand ([hdr_ok hdrdec hb roots]);
     hb roots bs   a logical archive: header bytes hb (decoding to roots, version 1) and blocks bs;
     file    ANY container of it: [valid_input hb bs file] is  file = ld hb ++ sections  (CARv1)  or
             file = pragma ++ 40-byte header (any characteristics, any data padding, any IndexOffset
             field) ++ padding ++ payload ++ anything (index padding, index, ...)  (CARv2).
   [blocks_ok]: well-formed CIDs, sections within MaxAllowedSectionSize; [hashes_ok hok]: every block
   hashes to its CID; [cids_indexable]: CIDs of at most 2048 bytes (MaxIndexCidSize); sizes < 2^63. *)
From Coq Require Import Sorting.Permutation.
From GoCar Require Import Bytes Varint Cid Header Frame V2Header Scan Index Store Traversal ExtractFs CliCmds.
From GoCarProofs Require Import StoreInv CliBase CliWalk CliProducers CliConcat CliFilter CliClosure CliTheorems CliGet CliAppend CliIndexFacts CliFull CliCidList CliGetDag CliPipe CliExamples.
From GoCarProofs Require FinalIndex ScanTrunc.

(* ---- car list / car root ------------------------------------------------------------------------------ *)
Theorem C19_list :
  forall hok hdrdec, hdrdec pragma_body = Some ([], 2) ->
  forall hb roots bs file,
    hdr_ok hdrdec hb roots -> blocks_ok bs -> hashes_ok hok bs -> valid_input hb bs file ->
    list_car hok hdrdec file = (true, map fst bs).
Proof. exact list_car_valid. Qed.
Print Assumptions C19_list.

Theorem C19_root :
  forall (_ : bytes -> bytes -> option bool) hdrdec, hdrdec pragma_body = Some ([], 2) ->
  forall hb roots bs file,
    hdr_ok hdrdec hb roots -> valid_input hb bs file ->
    root_car hdrdec file = (true, roots).
Proof. exact root_car_valid. Qed.
Print Assumptions C19_root.

(* ---- the CID list car filter reads (--cid-file or stdin) ---------------------------------------------------------- *)
(* every rendering of a list of lines -- inline white space around an optional CID text, each line ended
   by LF or CRLF (the bool), then optionally a last line WITHOUT terminator -- parses to exactly the CIDs
   of the lines, in order ([lines_cids]: blank lines contribute nothing, a text contributes what cid.Parse,
   the table, makes of it).  The filter theorems below take the parsed selection [sel]. *)
Theorem C19_cid_list_syntax :
  forall tab (ls : list (cline * bool)) (last : option cline) cs cl,
    Forall (fun lc => cline_ok (fst lc)) ls ->
    lines_cids tab (map fst ls) cs ->
    match last with Some l => cline_ok l /\ lines_cids tab [l] cl | None => cl = [] end ->
    parse_cids tab (concat (map cline_term ls) ++ match last with Some l => cline_bytes l | None => [] end)
    = Some (cs ++ cl).
Proof. exact parse_cids_rendered. Qed.
Print Assumptions C19_cid_list_syntax.

Theorem C19_filter_reads_its_cid_list :
  forall hok hdrdec tab text sel inv ver app infile outf,
    parse_cids tab text = Some sel ->
    filter_cmd hok hdrdec tab text inv ver app infile outf = filter_car hok hdrdec sel inv ver app infile outf.
Proof. exact filter_cmd_parsed. Qed.
Print Assumptions C19_filter_reads_its_cid_list.

(* error branch: a line cid.Parse refuses stops the command before the output is touched *)
Theorem C19_filter_refuses_unparsable_cid_list :
  forall hok hdrdec tab text inv ver app infile outf,
    parse_cids tab text = None ->
    filter_cmd hok hdrdec tab text inv ver app infile outf = (false, outf).
Proof. exact filter_cmd_unparsable. Qed.
Print Assumptions C19_filter_refuses_unparsable_cid_list.

(* ---- car filter (without --append) ------------------------------------------------------------------------ *)
(* The output file, byte for byte, whatever was at the output path before: the CARv1 / the CARv2
   (pragma, header, payload, car-multihash-index-sorted index) of
     roots  = the input's roots that pass the filter,
     blocks = filter_spec: the input's blocks that pass the filter, in source order, identity blocks
              dropped, only the first block of every multihash kept. *)
Theorem C19_filter_v1_output :
  forall hok hdrdec, hdrdec pragma_body = Some ([], 2) ->
  forall sel inv hb roots bs file outf,
    hdr_ok hdrdec hb roots -> blocks_ok bs -> hashes_ok hok bs -> cids_indexable bs ->
    valid_input hb bs file ->
    filter_car hok hdrdec sel inv 1 false file outf
    = (true, Some (payload_hb (enc_header (Some (filter (match_filter sel inv) roots)) 1)
                              (dedup_blocks (filter (fun b => match_filter sel inv (fst b)) bs)))).
Proof. exact filter_car_v1. Qed.
Print Assumptions C19_filter_v1_output.

Theorem C19_filter_v2_output :
  forall hok hdrdec, hdrdec pragma_body = Some ([], 2) ->
  forall sel inv hb roots bs file outf,
    hdr_ok hdrdec hb roots -> blocks_ok bs -> hashes_ok hok bs -> cids_indexable bs ->
    valid_input hb bs file ->
    51 + blen (payload_hb (filter_hb sel inv roots) (filter_spec sel inv bs)) < two64 ->
    filter_car hok hdrdec sel inv 2 false file outf
    = (true, Some (v2file 0 0 0 (51 + blen (payload_hb (filter_hb sel inv roots) (filter_spec sel inv bs)))
                          (payload_hb (filter_hb sel inv roots) (filter_spec sel inv bs))
                          (idx_write (filter_index (filter_hb sel inv roots) (filter_spec sel inv bs))))).
Proof. exact filter_car_v2. Qed.
Print Assumptions C19_filter_v2_output.

(* C19_filter: the blocks of the output (read back by the BlockReader) are exactly the de-duplicated
   selected blocks of the input in source order, under the filtered roots *)
Theorem C19_filter_v1 :
  forall hok hdrdec, hdrdec pragma_body = Some ([], 2) ->
  forall sel inv hb roots bs file,
    hdr_ok hdrdec hb roots -> blocks_ok bs -> hashes_ok hok bs -> cids_indexable bs ->
    valid_input hb bs file ->
    hdr_ok hdrdec (filter_hb sel inv roots) (filter_roots sel inv roots) ->
    forall outf, exists out,
      filter_car hok hdrdec sel inv 1 false file outf = (true, Some out) /\
      br_read_all hok hdrdec default_ropts out
      = Ok (1, filter_roots sel inv roots, mkscan (filter_spec sel inv bs) EEof).
Proof. exact filter_v1_reads_back. Qed.
Print Assumptions C19_filter_v1.

Theorem C19_filter_v2 :
  forall hok hdrdec, hdrdec pragma_body = Some ([], 2) ->
  forall sel inv hb roots bs file,
    hdr_ok hdrdec hb roots -> blocks_ok bs -> hashes_ok hok bs -> cids_indexable bs ->
    valid_input hb bs file ->
    hdr_ok hdrdec (filter_hb sel inv roots) (filter_roots sel inv roots) ->
    forall outf,
    51 + blen (payload_hb (filter_hb sel inv roots) (filter_spec sel inv bs))
       + blen (idx_write (filter_index (filter_hb sel inv roots) (filter_spec sel inv bs))) < two63 ->
    exists out,
      filter_car hok hdrdec sel inv 2 false file outf = (true, Some out) /\
      br_read_all hok hdrdec default_ropts out
      = Ok (2, filter_roots sel inv roots, mkscan (filter_spec sel inv bs) EEof).
Proof. exact filter_v2_reads_back. Qed.
Print Assumptions C19_filter_v2.

(* --append (only with --version 2): the existing output -- any CARv2 without data padding over
   header ohb / blocks st, whatever its IndexOffset and whatever follows its payload -- is resumed;
   the result is the CARv2 of the existing roots and   st ++ (selected input blocks whose multihash
   st does not hold, identity blocks dropped, first occurrence only),  with a fresh index. *)
Theorem C19_filter_append_output :
  forall hok hdrdec, hdrdec pragma_body = Some ([], 2) ->
  forall sel inv hb roots bs file ohb oroots st hi lo ioff trailer,
    hdr_ok hdrdec hb roots -> blocks_ok bs -> hashes_ok hok bs -> cids_indexable bs ->
    valid_input hb bs file ->
    hdr_ok hdrdec ohb oroots -> blen (enc_header (Some oroots) 1) = blen ohb ->
    Forall (blk_ok default_maxs) st ->
    hi < two64 -> lo < two64 -> ioff < two63 ->
    51 + blen (payload_hb ohb st) + blen trailer < two63 ->
    let st' := st ++ dedup_from (map fst st) (filter (fun b => match_filter sel inv (fst b)) bs) in
    51 + blen (payload_hb ohb st') < two64 ->
    filter_car hok hdrdec sel inv 2 true file (Some (v2file hi lo 0 ioff (payload_hb ohb st) trailer))
    = (true, Some (v2file 0 0 0 (51 + blen (payload_hb ohb st')) (payload_hb ohb st')
                          (idx_write (filter_index ohb st')))).
Proof. exact filter_car_append. Qed.
Print Assumptions C19_filter_append_output.

Theorem C19_filter_append :
  forall hok hdrdec, hdrdec pragma_body = Some ([], 2) ->
  forall sel inv hb roots bs file ohb oroots st hi lo ioff trailer,
    hdr_ok hdrdec hb roots -> blocks_ok bs -> hashes_ok hok bs -> cids_indexable bs ->
    valid_input hb bs file ->
    hdr_ok hdrdec ohb oroots -> blen (enc_header (Some oroots) 1) = blen ohb ->
    blocks_ok st -> hashes_ok hok st ->
    hi < two64 -> lo < two64 -> ioff < two63 ->
    51 + blen (payload_hb ohb st) + blen trailer < two63 ->
    let st' := st ++ dedup_from (map fst st) (filter (fun b => match_filter sel inv (fst b)) bs) in
    51 + blen (payload_hb ohb st') + blen (idx_write (filter_index ohb st')) < two63 ->
    exists out st_,
      filter_car hok hdrdec sel inv 2 true file (Some (v2file hi lo 0 ioff (payload_hb ohb st) trailer))
        = (true, Some out) /\
      br_read_all hok hdrdec default_ropts out = Ok (2, oroots, mkscan st' EEof) /\
      inspect_car hok hdrdec true out = Ok st_ /\ is_count st_ = N.of_nat (length st').
Proof. exact filter_append_reads_back. Qed.
Print Assumptions C19_filter_append.

(* ---- car index, car index create, car detach-index ------------------------------------------------------------ *)
(* C19_index_payload_unchanged + "index = regenerated index" + C19_detach in one statement: with a
   sorted codec, car index writes pragma, a fresh header, the input's payload byte for byte, and the
   index bytes that car index create produces for the input; car index create on the written file
   and car detach-index of the written file give the same index bytes back.
   [reencode_header hb roots 1 = hb]: the header is one go-ipld-cbor re-encodes to itself (true of
   every header the library writes). *)
Theorem C19_index_payload_unchanged_and_index_regenerated :
  forall (_ : bytes -> bytes -> option bool) hdrdec, hdrdec pragma_body = Some ([], 2) ->
  forall hb roots bs file,
    hdr_ok hdrdec hb roots -> reencode_header hb roots 1 = hb -> blocks_ok bs -> valid_input hb bs file ->
  forall k codec,
    cids_indexable bs -> codec_of_kind k = Some codec -> 51 + blen (payload_hb hb bs) < two64 ->
    exists ibytes,
      index_car hdrdec k 2 file
        = (true, Some (v2file 0 0 0 (51 + blen (payload_hb hb bs)) (payload_hb hb bs) ibytes)) /\
      index_create hdrdec k file = (true, Some ibytes) /\
      (51 + blen (payload_hb hb bs) + blen ibytes < two63 ->
         index_create hdrdec k (v2file 0 0 0 (51 + blen (payload_hb hb bs)) (payload_hb hb bs) ibytes)
           = (true, Some ibytes) /\
         detach_index hdrdec (v2file 0 0 0 (51 + blen (payload_hb hb bs)) (payload_hb hb bs) ibytes)
           = (true, Some ibytes)).
Proof. exact index_codec_summary. Qed.
Print Assumptions C19_index_payload_unchanged_and_index_regenerated.

(* the index bytes, explicitly: the chosen codec loaded with the records of every non-identity
   section at its offset in the payload *)
Theorem C19_index_create :
  forall (_ : bytes -> bytes -> option bool) hdrdec, hdrdec pragma_body = Some ([], 2) ->
  forall hb roots bs file k codec,
    hdr_ok hdrdec hb roots -> blocks_ok bs -> cids_indexable bs -> valid_input hb bs file ->
    codec_of_kind k = Some codec ->
    index_create hdrdec k file
    = (true, match idx_new codec with
             | None => None
             | Some i0 => Some (idx_write (idx_load
                            (filter (fun r => negb (r_code r =? 0)) (records_from (blen (ld hb)) bs)) i0))
             end).
Proof. exact index_create_valid. Qed.
Print Assumptions C19_index_create.

(* C19_detach for every container: IndexOffset pointing behind payload and index padding *)
Theorem C19_detach :
  forall (_ : bytes -> bytes -> option bool) hdrdec, hdrdec pragma_body = Some ([], 2) ->
  forall hi lo dpad ipad payload ibytes,
    hi < two64 -> lo < two64 -> 1 <= blen payload ->
    51 + dpad + blen payload + ipad + blen ibytes < two63 ->
    detach_index hdrdec (v2file hi lo dpad (51 + dpad + blen payload + ipad) payload (zerosN ipad ++ ibytes))
    = (true, Some ibytes).
Proof. exact detach_index_valid. Qed.
Print Assumptions C19_detach.

(* error branches: no index to detach *)
Theorem C19_detach_refuses_carv1 :
  forall (_ : bytes -> bytes -> option bool) hdrdec, hdrdec pragma_body = Some ([], 2) ->
  forall hb roots bs, hdr_ok hdrdec hb roots -> detach_index hdrdec (payload_hb hb bs) = (false, None).
Proof. exact detach_index_v1_refused. Qed.
Print Assumptions C19_detach_refuses_carv1.

Theorem C19_detach_refuses_indexless_carv2 :
  forall (_ : bytes -> bytes -> option bool) hdrdec, hdrdec pragma_body = Some ([], 2) ->
  forall hi lo dpad payload tr,
    hi < two64 -> lo < two64 -> 1 <= blen payload -> 51 + dpad + blen payload + blen tr < two63 ->
    detach_index hdrdec (v2file hi lo dpad 0 payload tr) = (false, None).
Proof. exact detach_index_indexless_refused. Qed.
Print Assumptions C19_detach_refuses_indexless_carv2.

(* --codec none and --version 1: payload unchanged, and both checkers accept (closure) *)
Theorem C19_index_none_payload_unchanged_and_closed :
  forall hok hdrdec, hdrdec pragma_body = Some ([], 2) ->
  forall hb roots bs file,
    hdr_ok hdrdec hb roots -> reencode_header hb roots 1 = hb -> blocks_ok bs -> valid_input hb bs file ->
    hashes_ok hok bs -> 51 + blen (payload_hb hb bs) < two63 ->
    index_car hdrdec 1 2 file = (true, Some (indexless_file hb bs)) /\
    (exists st, inspect_car hok hdrdec true (indexless_file hb bs) = Ok st /\
                is_count st = N.of_nat (length bs)) /\
    (roots <> [] -> roots_present roots bs = true -> verify_car hok hdrdec (indexless_file hb bs) = Ok tt).
Proof. exact index_none_closed. Qed.
Print Assumptions C19_index_none_payload_unchanged_and_closed.

Theorem C19_index_v1_payload_unchanged_and_closed :
  forall hok hdrdec, hdrdec pragma_body = Some ([], 2) ->
  forall hb roots bs file,
    hdr_ok hdrdec hb roots -> reencode_header hb roots 1 = hb -> blocks_ok bs -> valid_input hb bs file ->
  forall k, k = 0 \/ k = 1 -> hashes_ok hok bs ->
    index_car hdrdec k 1 file = (true, Some (payload_hb hb bs)) /\
    (exists st, inspect_car hok hdrdec true (payload_hb hb bs) = Ok st /\ is_count st = N.of_nat (length bs)) /\
    (roots <> [] -> roots_present roots bs = true -> verify_car hok hdrdec (payload_hb hb bs) = Ok tt).
Proof. exact index_v1_closed. Qed.
Print Assumptions C19_index_v1_payload_unchanged_and_closed.

(* error branch: a codec with --version 1 is refused and nothing is written *)
Theorem C19_index_v1_refuses_codec :
  forall (_ : bytes -> bytes -> option bool) hdrdec, hdrdec pragma_body = Some ([], 2) ->
  forall hb roots bs file k,
    hdr_ok hdrdec hb roots -> valid_input hb bs file -> k <> 0 -> k <> 1 ->
    index_car hdrdec k 1 file = (false, None).
Proof. exact index_car_v1_codec_refused. Qed.
Print Assumptions C19_index_v1_refuses_codec.

(* ---- closure: inspect --full ------------------------------------------------------------------------------------ *)
Theorem C19_closed_under_inspect_filter_v1 :
  forall hok hdrdec, hdrdec pragma_body = Some ([], 2) ->
  forall sel inv hb roots bs file,
    hdr_ok hdrdec hb roots -> blocks_ok bs -> hashes_ok hok bs -> cids_indexable bs ->
    valid_input hb bs file ->
    hdr_ok hdrdec (filter_hb sel inv roots) (filter_roots sel inv roots) ->
    forall outf, exists out st,
      filter_car hok hdrdec sel inv 1 false file outf = (true, Some out) /\
      inspect_car hok hdrdec true out = Ok st /\ is_count st = N.of_nat (length (filter_spec sel inv bs)).
Proof. exact closed_inspect_filter_v1. Qed.
Print Assumptions C19_closed_under_inspect_filter_v1.

Theorem C19_closed_under_inspect_filter_v2 :
  forall hok hdrdec, hdrdec pragma_body = Some ([], 2) ->
  forall sel inv hb roots bs file,
    hdr_ok hdrdec hb roots -> blocks_ok bs -> hashes_ok hok bs -> cids_indexable bs ->
    valid_input hb bs file ->
    hdr_ok hdrdec (filter_hb sel inv roots) (filter_roots sel inv roots) ->
    forall outf,
    51 + blen (payload_hb (filter_hb sel inv roots) (filter_spec sel inv bs))
       + blen (idx_write (filter_index (filter_hb sel inv roots) (filter_spec sel inv bs))) < two63 ->
    exists out st,
      filter_car hok hdrdec sel inv 2 false file outf = (true, Some out) /\
      inspect_car hok hdrdec true out = Ok st /\
      is_count st = N.of_nat (length (filter_spec sel inv bs)) /\ is_idx_codec st = codec_mh_sorted.
Proof. exact closed_inspect_filter_v2. Qed.
Print Assumptions C19_closed_under_inspect_filter_v2.

Theorem C19_closed_under_inspect_index :
  forall hok hdrdec, hdrdec pragma_body = Some ([], 2) ->
  forall hb roots bs file,
    hdr_ok hdrdec hb roots -> reencode_header hb roots 1 = hb -> blocks_ok bs -> valid_input hb bs file ->
  forall k codec i0,
    codec_of_kind k = Some codec -> idx_new codec = Some i0 -> hashes_ok hok bs ->
    51 + blen (payload_hb hb bs) + blen (idx_write (idx_load (regen_records_hb hb bs) i0)) < two63 ->
    exists out st,
      index_car hdrdec k 2 file = (true, Some out) /\
      inspect_car hok hdrdec true out = Ok st /\
      is_count st = N.of_nat (length bs) /\ is_idx_codec st = codec.
Proof. exact closed_inspect_index_codec. Qed.
Print Assumptions C19_closed_under_inspect_index.

(* ---- closure: verify --------------------------------------------------------------------------------------------- *)
Theorem C19_closed_under_verify_filter_v1 :
  forall hok hdrdec, hdrdec pragma_body = Some ([], 2) ->
  forall sel inv hb roots bs file,
    hdr_ok hdrdec hb roots -> blocks_ok bs -> hashes_ok hok bs -> cids_indexable bs ->
    valid_input hb bs file ->
    hdr_ok hdrdec (filter_hb sel inv roots) (filter_roots sel inv roots) ->
    forall outf,
    filter_roots sel inv roots <> [] ->
    roots_present (filter_roots sel inv roots) (filter_spec sel inv bs) = true ->
    exists out,
      filter_car hok hdrdec sel inv 1 false file outf = (true, Some out) /\
      verify_car hok hdrdec out = Ok tt.
Proof. exact closed_verify_filter_v1. Qed.
Print Assumptions C19_closed_under_verify_filter_v1.

(* outputs that embed an index (round 2: the guard [index_answers] of the _partial statements below is
   discharged with the index theory of C03/C05/C07/C11 -- GetAll on a loaded index finds every record,
   WriteTo/ReadFrom round trip).  Residual hypothesis: fewer than 2^31 blocks.  It is needed because
   car-multihash-index-sorted stores the number of distinct hash codes in an int32 (index.Marshal);
   the block count bounds that number.  For car-index-sorted there is no such hypothesis. *)
Theorem C19_closed_under_verify_filter_v2 :
  forall hok hdrdec, hdrdec pragma_body = Some ([], 2) ->
  forall sel inv hb roots bs file outf,
    hdr_ok hdrdec hb roots -> blocks_ok bs -> hashes_ok hok bs -> cids_indexable bs ->
    valid_input hb bs file ->
    hdr_ok hdrdec (filter_hb sel inv roots) (filter_roots sel inv roots) ->
    51 + blen (payload_hb (filter_hb sel inv roots) (filter_spec sel inv bs))
       + blen (idx_write (filter_index (filter_hb sel inv roots) (filter_spec sel inv bs))) < two63 ->
    filter_roots sel inv roots <> [] ->
    roots_present (filter_roots sel inv roots) (filter_spec sel inv bs) = true ->
    N.of_nat (length (filter_spec sel inv bs)) < two31 ->
    exists out,
      filter_car hok hdrdec sel inv 2 false file outf = (true, Some out) /\
      verify_car hok hdrdec out = Ok tt.
Proof. exact closed_verify_filter_v2. Qed.
Print Assumptions C19_closed_under_verify_filter_v2.

Theorem C19_closed_under_verify_filter_append :
  forall hok hdrdec, hdrdec pragma_body = Some ([], 2) ->
  forall sel inv hb roots bs file ohb oroots st hi lo ioff trailer,
    hdr_ok hdrdec hb roots -> blocks_ok bs -> hashes_ok hok bs -> cids_indexable bs ->
    valid_input hb bs file ->
    hdr_ok hdrdec ohb oroots -> blen (enc_header (Some oroots) 1) = blen ohb ->
    blocks_ok st -> hashes_ok hok st ->
    hi < two64 -> lo < two64 -> ioff < two63 ->
    51 + blen (payload_hb ohb st) + blen trailer < two63 ->
    let st' := st ++ dedup_from (map fst st) (filter (fun b => match_filter sel inv (fst b)) bs) in
    51 + blen (payload_hb ohb st') + blen (idx_write (filter_index ohb st')) < two63 ->
    oroots <> [] -> roots_present oroots st' = true -> N.of_nat (length st') < two31 ->
    exists out,
      filter_car hok hdrdec sel inv 2 true file (Some (v2file hi lo 0 ioff (payload_hb ohb st) trailer))
        = (true, Some out) /\
      verify_car hok hdrdec out = Ok tt.
Proof. exact closed_verify_filter_append. Qed.
Print Assumptions C19_closed_under_verify_filter_append.

Theorem C19_closed_under_verify_index :
  forall hok hdrdec, hdrdec pragma_body = Some ([], 2) ->
  forall hb roots bs file k codec i0,
    hdr_ok hdrdec hb roots -> reencode_header hb roots 1 = hb -> blocks_ok bs -> valid_input hb bs file ->
    codec_of_kind k = Some codec -> idx_new codec = Some i0 -> hashes_ok hok bs ->
    roots <> [] -> roots_present roots bs = true ->
    51 + blen (payload_hb hb bs) + blen (idx_write (idx_load (regen_records_hb hb bs) i0)) < two63 ->
    (codec = codec_mh_sorted -> N.of_nat (length bs) < two31) ->
    exists out, index_car hdrdec k 2 file = (true, Some out) /\ verify_car hok hdrdec out = Ok tt.
Proof. exact closed_verify_index. Qed.
Print Assumptions C19_closed_under_verify_index.

(* the guarded forms, kept: they hold for ANY index bytes satisfying the guard *)
(* partial (outputs that embed an index): under the executable guard [index_answers] -- the embedded
   index bytes parse back and answer for every block's CID.  That the guard always holds is the
   content of C03 (index soundness/completeness) and C11 (lossless serialisation); the check evaluates
   it on every generated case. *)
Theorem C19_closed_under_verify_filter_v2_partial :
  forall hok hdrdec, hdrdec pragma_body = Some ([], 2) ->
  forall sel inv hb roots bs file,
    hdr_ok hdrdec hb roots -> blocks_ok bs -> hashes_ok hok bs -> cids_indexable bs ->
    valid_input hb bs file ->
    hdr_ok hdrdec (filter_hb sel inv roots) (filter_roots sel inv roots) ->
    forall outf,
    51 + blen (payload_hb (filter_hb sel inv roots) (filter_spec sel inv bs))
       + blen (idx_write (filter_index (filter_hb sel inv roots) (filter_spec sel inv bs))) < two63 ->
    filter_roots sel inv roots <> [] ->
    roots_present (filter_roots sel inv roots) (filter_spec sel inv bs) = true ->
    index_answers (idx_write (filter_index (filter_hb sel inv roots) (filter_spec sel inv bs)))
                  (map fst (filter_spec sel inv bs)) = true ->
    exists out,
      filter_car hok hdrdec sel inv 2 false file outf = (true, Some out) /\
      verify_car hok hdrdec out = Ok tt.
Proof. exact closed_verify_filter_v2_guarded. Qed.
Print Assumptions C19_closed_under_verify_filter_v2_partial.

Theorem C19_closed_under_verify_index_partial :
  forall hok hdrdec, hdrdec pragma_body = Some ([], 2) ->
  forall hb roots bs file,
    hdr_ok hdrdec hb roots -> reencode_header hb roots 1 = hb -> blocks_ok bs -> valid_input hb bs file ->
  forall k codec i0,
    codec_of_kind k = Some codec -> idx_new codec = Some i0 -> hashes_ok hok bs ->
    roots <> [] -> roots_present roots bs = true ->
    51 + blen (payload_hb hb bs) + blen (idx_write (idx_load (regen_records_hb hb bs) i0)) < two63 ->
    index_answers (idx_write (idx_load (regen_records_hb hb bs) i0)) (map fst bs) = true ->
    exists out, index_car hdrdec k 2 file = (true, Some out) /\ verify_car hok hdrdec out = Ok tt.
Proof. exact closed_verify_index_codec_guarded. Qed.
Print Assumptions C19_closed_under_verify_index_partial.

(* the stated exception of the closure clause: car verify refuses every archive without roots *)
Theorem C19_verify_rejects_rootless :
  forall hok hdrdec, hdrdec pragma_body = Some ([], 2) ->
  forall hb bs file, hdr_ok hdrdec hb [] -> valid_input hb bs file ->
    verify_car hok hdrdec file = Err EOther.
Proof. exact verify_rootless. Qed.
Print Assumptions C19_verify_rejects_rootless.

(* ---- car get-block ------------------------------------------------------------------------------------------------- *)
(* C19_get_block in full (round 2; the guards of the _partial statements further down are discharged).
   CARv1 or index-less CARv2 (the read-only blockstore generates its index): a key whose multihash some
   block carries yields the exact data bytes of such a block; otherwise "not found" (exit status 1). *)
Theorem C19_get_block :
  forall (_ : bytes -> bytes -> option bool) hdrdec, hdrdec pragma_body = Some ([], 2) ->
  forall hb roots bs file key kp,
    hdr_ok hdrdec hb roots -> blocks_ok bs -> cids_indexable bs -> no_index_input hb bs file ->
    cid_parse key = Some kp -> is_identity kp = false ->
    existsb (fun b => same_mh (fst b) key) bs = true ->
    exists c d, In (c, d) bs /\ same_mh c key = true /\ get_block hdrdec file key = Ok d.
Proof. exact get_block_present. Qed.
Print Assumptions C19_get_block.

Theorem C19_get_block_absent :
  forall (_ : bytes -> bytes -> option bool) hdrdec, hdrdec pragma_body = Some ([], 2) ->
  forall hb roots bs file key kp,
    hdr_ok hdrdec hb roots -> blocks_ok bs -> cids_indexable bs -> no_index_input hb bs file ->
    cid_parse key = Some kp -> is_identity kp = false ->
    existsb (fun b => same_mh (fst b) key) bs = false ->
    get_block hdrdec file key = Err ENotFound.
Proof. exact get_block_absent. Qed.
Print Assumptions C19_get_block_absent.

(* CARv2 embedding an index the library wrote -- what car index, car filter --version 2, car create,
   the blockstores produce: either codec ([fresh i0]), loaded with any record list that [describes]
   the payload (each record is the record of a section; every non-identity block has one: all
   section records, or the non-identity ones, in any order), behind any data / index padding,
   followed by anything.  [codes_fit]: for the multihash codec, fewer than 2^31 distinct hash codes
   (the int32 count field of index.Marshal). *)
Theorem C19_get_block_embedded_index :
  forall (_ : bytes -> bytes -> option bool) hdrdec, hdrdec pragma_body = Some ([], 2) ->
  forall hb roots bs hi lo dpad ipad recs i0 extra,
    hdr_ok hdrdec hb roots -> blocks_ok bs -> hi < two64 -> lo < two64 ->
    fresh i0 -> describes recs hb bs -> (length recs <= length bs)%nat -> codes_fit i0 recs ->
    51 + dpad + blen (payload_hb hb bs) + ipad + blen (idx_write (idx_load recs i0) ++ extra) < two63 ->
  forall key kp,
    cid_parse key = Some kp -> is_identity kp = false ->
    existsb (fun b => same_mh (fst b) key) bs = true ->
    exists c d, In (c, d) bs /\ same_mh c key = true /\
      get_block hdrdec (v2file hi lo dpad (51 + dpad + blen (payload_hb hb bs) + ipad) (payload_hb hb bs)
                               (zerosN ipad ++ idx_write (idx_load recs i0) ++ extra)) key = Ok d.
Proof. exact get_block_own_index_present. Qed.
Print Assumptions C19_get_block_embedded_index.

Theorem C19_get_block_embedded_index_absent :
  forall (_ : bytes -> bytes -> option bool) hdrdec, hdrdec pragma_body = Some ([], 2) ->
  forall hb roots bs hi lo dpad ipad recs i0 extra,
    hdr_ok hdrdec hb roots -> blocks_ok bs -> hi < two64 -> lo < two64 ->
    fresh i0 -> describes recs hb bs -> (length recs <= length bs)%nat -> codes_fit i0 recs ->
    51 + dpad + blen (payload_hb hb bs) + ipad + blen (idx_write (idx_load recs i0) ++ extra) < two63 ->
  forall key kp,
    cid_parse key = Some kp -> is_identity kp = false ->
    existsb (fun b => same_mh (fst b) key) bs = false ->
    get_block hdrdec (v2file hi lo dpad (51 + dpad + blen (payload_hb hb bs) + ipad) (payload_hb hb bs)
                             (zerosN ipad ++ idx_write (idx_load recs i0) ++ extra)) key = Err ENotFound.
Proof. exact get_block_own_index_absent. Qed.
Print Assumptions C19_get_block_embedded_index_absent.

(* the record lists the producers load their indexes with do describe the payload *)
Theorem C19_index_records_describe_payload :
  forall hb bs,
    describes (regen_records_hb hb bs) hb bs /\ describes (all_records_hb hb bs) hb bs /\
    describes (session_records hb bs) hb bs /\
    (length (regen_records_hb hb bs) <= length bs)%nat /\ (length (session_records hb bs) <= length bs)%nat.
Proof.
  exact (fun hb bs => conj (regen_describes hb bs) (conj (all_describes hb bs) (conj (session_describes hb bs)
           (conj (length_regen hb bs) (length_session hb bs))))).
Qed.
Print Assumptions C19_index_records_describe_payload.

(* the guarded forms, kept: they hold for ANY index (e.g. one a foreign tool embedded) meeting the guard *)
(* C19_get_block, partial: for a CARv1 or an index-less CARv2 (the read-only blockstore generates its
   index), under the executable guard [candidates_ok] -- the offsets the generated index yields for
   the key are section starts and one of them carries the key's multihash (index soundness and
   completeness, C03; evaluated on every generated case) -- the command prints the exact data bytes
   of a block of the archive with the key's multihash. *)
Theorem C19_get_block_partial :
  forall (_ : bytes -> bytes -> option bool) hdrdec, hdrdec pragma_body = Some ([], 2) ->
  forall hb roots bs file key kp,
    hdr_ok hdrdec hb roots -> blocks_ok bs -> cids_indexable bs -> no_index_input hb bs file ->
    cid_parse key = Some kp -> is_identity kp = false ->
    candidates_ok hb bs (idx_getall (generated_index hb bs) (c_mhcode kp) (c_digest kp)) key = true ->
    exists c d, In (c, d) bs /\ same_mh c key = true /\ get_block hdrdec file key = Ok d.
Proof. exact get_block_generated. Qed.
Print Assumptions C19_get_block_partial.

(* the same for a CARv2 that embeds an index (any bytes that index.ReadFrom accepts) *)
Theorem C19_get_block_embedded_index_partial :
  forall (_ : bytes -> bytes -> option bool) hdrdec, hdrdec pragma_body = Some ([], 2) ->
  forall hb roots bs hi lo dpad ipad ibytes i rest key kp,
    hdr_ok hdrdec hb roots -> blocks_ok bs -> hi < two64 -> lo < two64 ->
    51 + dpad + blen (payload_hb hb bs) + ipad + blen ibytes < two63 ->
    idx_read ibytes = Ok (i, rest) ->
    cid_parse key = Some kp -> is_identity kp = false ->
    candidates_ok hb bs (idx_getall i (c_mhcode kp) (c_digest kp)) key = true ->
    exists c d, In (c, d) bs /\ same_mh c key = true /\
      get_block hdrdec (v2file hi lo dpad (51 + dpad + blen (payload_hb hb bs) + ipad) (payload_hb hb bs)
                               (zerosN ipad ++ ibytes)) key = Ok d.
Proof. exact get_block_embedded. Qed.
Print Assumptions C19_get_block_embedded_index_partial.

(* a key no block carries: "not found" (exit status 1), under index soundness alone *)
Theorem C19_get_block_absent_partial :
  forall (_ : bytes -> bytes -> option bool) hdrdec, hdrdec pragma_body = Some ([], 2) ->
  forall hb roots bs file key kp,
    hdr_ok hdrdec hb roots -> blocks_ok bs -> cids_indexable bs -> no_index_input hb bs file ->
    cid_parse key = Some kp -> is_identity kp = false ->
    existsb (fun b => same_mh (fst b) key) bs = false ->
    candidates_sound hb bs (idx_getall (generated_index hb bs) (c_mhcode kp) (c_digest kp)) = true ->
    get_block hdrdec file key = Err ENotFound.
Proof. exact get_block_generated_absent. Qed.
Print Assumptions C19_get_block_absent_partial.

(* identity keys: the block is the digest, whether or not the archive contains it (no guard) *)
Theorem C19_get_block_identity :
  forall (_ : bytes -> bytes -> option bool) hdrdec, hdrdec pragma_body = Some ([], 2) ->
  forall hb roots bs file key kp,
    hdr_ok hdrdec hb roots -> blocks_ok bs -> cids_indexable bs -> no_index_input hb bs file ->
    cid_parse key = Some kp -> is_identity kp = true ->
    get_block hdrdec file key = Ok (c_digest kp).
Proof. exact get_block_identity. Qed.
Print Assumptions C19_get_block_identity.

(* ---- car detach-index list, car inspect without --full ------------------------------------------------------------ *)
(* car index create (multihash codec) then car detach-index list: one "<multihash> <offset>" line per
   non-identity section, as a multiset (the listing order is by code, width, digest) *)
Theorem C19_detach_list :
  forall (_ : bytes -> bytes -> option bool) hdrdec, hdrdec pragma_body = Some ([], 2) ->
  forall hb roots bs file k,
    hdr_ok hdrdec hb roots -> blocks_ok bs -> cids_indexable bs -> valid_input hb bs file ->
    codec_of_kind k = Some codec_mh_sorted ->
    blen (payload_hb hb bs) < two63 ->
    blen (idx_write (idx_load (regen_records_hb hb bs) (IdxMh []))) < two63 ->
    N.of_nat (length bs) < two31 ->
    exists ibytes l,
      index_create hdrdec k file = (true, Some ibytes) /\
      detach_list ibytes = (true, l) /\
      Permutation.Permutation l
        (map (fun r => (mh_enc (r_code r) (r_digest r), r_off r)) (regen_records_hb hb bs)).
Proof. exact detach_list_of_index_create. Qed.
Print Assumptions C19_detach_list.

(* error branch: a car-index-sorted index is "not iterable" *)
Theorem C19_detach_list_refuses_digest_only_index :
  forall (_ : bytes -> bytes -> option bool) (hdrdec : bytes -> option (list bytes * N)),
  hdrdec pragma_body = Some ([], 2) ->
  forall recs extra,
    Forall FinalIndex.rec_fits recs -> blen (idx_write (idx_load recs (IdxSorted []))) < two63 ->
    detach_list (idx_write (idx_load recs (IdxSorted [])) ++ extra) = (false, []).
Proof. exact detach_list_sorted_refused. Qed.
Print Assumptions C19_detach_list_refuses_digest_only_index.

(* car inspect without --full: no hashing, hence no hypothesis on the hash oracle; same report *)
Theorem C19_inspect_quick_carv1 :
  forall hok hdrdec, hdrdec pragma_body = Some ([], 2) ->
  forall hb roots bs, hdr_ok hdrdec hb roots -> blocks_ok bs ->
    inspect_car hok hdrdec false (payload_hb hb bs)
    = Ok (mkis 1 zero_v2hdr roots (map isec_of bs) 0 (blen (payload_hb hb bs))).
Proof. exact inspect_quick_v1. Qed.
Print Assumptions C19_inspect_quick_carv1.

Theorem C19_inspect_quick_carv2_indexless :
  forall hok hdrdec, hdrdec pragma_body = Some ([], 2) ->
  forall hb roots bs hi lo dpad trailer,
    hdr_ok hdrdec hb roots -> blocks_ok bs ->
    hi < two64 -> lo < two64 -> 51 + dpad + blen (payload_hb hb bs) + blen trailer < two63 ->
    inspect_car hok hdrdec false (v2file hi lo dpad 0 (payload_hb hb bs) trailer)
    = Ok (mkis 2 (mkv2 hi lo (51 + dpad) (blen (payload_hb hb bs)) 0) roots (map isec_of bs) 0
               (blen (payload_hb hb bs))).
Proof. exact inspect_quick_v2_indexless. Qed.
Print Assumptions C19_inspect_quick_carv2_indexless.

Theorem C19_inspect_quick_carv2_indexed :
  forall hok hdrdec, hdrdec pragma_body = Some ([], 2) ->
  forall hb roots bs hi lo dpad ipad codec rest,
    hdr_ok hdrdec hb roots -> blocks_ok bs ->
    hi < two64 -> lo < two64 -> codec < two63 ->
    51 + dpad + blen (payload_hb hb bs) + ipad + blen (put_uv codec ++ rest) < two63 ->
    inspect_car hok hdrdec false
      (v2file hi lo dpad (51 + dpad + blen (payload_hb hb bs) + ipad) (payload_hb hb bs)
              (zerosN ipad ++ put_uv codec ++ rest))
    = Ok (mkis 2 (mkv2 hi lo (51 + dpad) (blen (payload_hb hb bs)) (51 + dpad + blen (payload_hb hb bs) + ipad))
               roots (map isec_of bs) codec (blen (payload_hb hb bs))).
Proof. exact inspect_quick_v2_indexed. Qed.
Print Assumptions C19_inspect_quick_carv2_indexed.

(* ---- car get-dag ----------------------------------------------------------------------------------------------------- *)
(* The traversal library is an oracle: [loads] is ANY sequence of blocks it may open for the request
   (root first, repeats included), [ok] whether the walk returned nil.  [opens file r]: the read-only
   blockstore opens on the input (C19_get_dag_input_opens: every CARv1 / index-less CARv2 does).
   --version 1 writes the CARv1 of the root and the FIRST OCCURRENCE of every loaded CID in load order. *)
Theorem C19_get_dag_v1 :
  forall (_ : bytes -> bytes -> option bool) hdrdec, hdrdec pragma_body = Some ([], 2) ->
  forall file r rc loads ok outf, opens hdrdec file r ->
    get_dag hdrdec 1 (Some rc) loads ok file outf
    = (ok, Some (payload_hb (enc_header (Some [rc]) 1) (first_occ loads))).
Proof. exact get_dag_v1. Qed.
Print Assumptions C19_get_dag_v1.

(* --version 2 writes, byte for byte, the CARv2 (pragma, header, payload, car-multihash-index-sorted index)
   of the root and the first occurrence of every loaded MULTIHASH, identity blocks dropped *)
Theorem C19_get_dag_v2 :
  forall (_ : bytes -> bytes -> option bool) hdrdec, hdrdec pragma_body = Some ([], 2) ->
  forall file r rc loads outf, opens hdrdec file r ->
    Forall (blk_ok default_maxs) loads -> cids_indexable loads ->
    51 + blen (payload_hb (dag_hb rc) (dedup_blocks loads)) < two64 ->
    get_dag hdrdec 2 (Some rc) loads true file outf
    = (true, Some (v2file 0 0 0 (51 + blen (payload_hb (dag_hb rc) (dedup_blocks loads)))
                          (payload_hb (dag_hb rc) (dedup_blocks loads))
                          (idx_write (filter_index (dag_hb rc) (dedup_blocks loads))))).
Proof. exact get_dag_v2. Qed.
Print Assumptions C19_get_dag_v2.

(* error branch: a failed walk leaves the output unfinalized and exits 1 *)
Theorem C19_get_dag_v2_failed_walk :
  forall (_ : bytes -> bytes -> option bool) hdrdec, hdrdec pragma_body = Some ([], 2) ->
  forall file r rc loads outf, opens hdrdec file r ->
    Forall (blk_ok default_maxs) loads -> cids_indexable loads ->
    get_dag hdrdec 2 (Some rc) loads false file outf
    = (false, Some (pragma ++ zerosN 40 ++ payload_hb (dag_hb rc) (dedup_blocks loads))).
Proof. exact get_dag_v2_failed_walk. Qed.
Print Assumptions C19_get_dag_v2_failed_walk.

(* v1 and v2 hold the same blocks in the same order unless the walk loads identity CIDs or two CIDs
   with one multihash *)
Theorem C19_get_dag_versions_agree :
  forall loads, mh_identifies (map fst loads) -> first_occ loads = dedup_blocks loads.
Proof. exact first_occ_eq_dedup. Qed.
Print Assumptions C19_get_dag_versions_agree.

(* the root argument: optional when the archive has exactly one root *)
Theorem C19_get_dag_root_from_archive :
  forall (_ : bytes -> bytes -> option bool) hdrdec, hdrdec pragma_body = Some ([], 2) ->
  forall ver file r rc loads ok outf, opens hdrdec file r ->
    reader_roots hdrdec r file = Ok [rc] ->
    get_dag hdrdec ver None loads ok file outf = get_dag hdrdec ver (Some rc) loads ok file outf.
Proof. exact get_dag_root_from_archive. Qed.
Print Assumptions C19_get_dag_root_from_archive.

Theorem C19_get_dag_needs_exactly_one_root :
  forall (_ : bytes -> bytes -> option bool) hdrdec, hdrdec pragma_body = Some ([], 2) ->
  forall ver file r roots loads ok outf, opens hdrdec file r ->
    reader_roots hdrdec r file = Ok roots -> length roots <> 1%nat ->
    get_dag hdrdec ver None loads ok file outf = (false, outf).
Proof. exact get_dag_needs_one_root. Qed.
Print Assumptions C19_get_dag_needs_exactly_one_root.

Theorem C19_get_dag_input_opens :
  forall (_ : bytes -> bytes -> option bool) hdrdec, hdrdec pragma_body = Some ([], 2) ->
  forall hb roots bs file,
    hdr_ok hdrdec hb roots -> blocks_ok bs -> cids_indexable bs -> no_index_input hb bs file ->
    exists r, opens hdrdec file r /\ reader_roots hdrdec r file = Ok roots.
Proof. exact opens_no_index. Qed.
Print Assumptions C19_get_dag_input_opens.

(* closure: both outputs read back as stated and pass inspect --full and verify (the root being among
   the blocks; for --version 2 fewer than 2^31 blocks, the int32 hash-code count of index.Marshal) *)
Theorem C19_get_dag_v1_closed :
  forall hok hdrdec, hdrdec pragma_body = Some ([], 2) ->
  forall file r rc loads outf,
    opens hdrdec file r -> blocks_ok loads -> hashes_ok hok loads -> hdr_ok hdrdec (dag_hb rc) [rc] ->
    let out := payload_hb (dag_hb rc) (first_occ loads) in
    get_dag hdrdec 1 (Some rc) loads true file outf = (true, Some out) /\
    br_read_all hok hdrdec default_ropts out = Ok (1, [rc], mkscan (first_occ loads) EEof) /\
    (exists st, inspect_car hok hdrdec true out = Ok st /\ is_count st = N.of_nat (length (first_occ loads))) /\
    (roots_present [rc] (first_occ loads) = true -> verify_car hok hdrdec out = Ok tt).
Proof. exact get_dag_v1_closed. Qed.
Print Assumptions C19_get_dag_v1_closed.

Theorem C19_get_dag_v2_closed :
  forall hok hdrdec, hdrdec pragma_body = Some ([], 2) ->
  forall file r rc loads outf,
    opens hdrdec file r -> blocks_ok loads -> hashes_ok hok loads -> hdr_ok hdrdec (dag_hb rc) [rc] ->
    cids_indexable loads ->
    let kept := dedup_blocks loads in
    let P := payload_hb (dag_hb rc) kept in
    let out := v2file 0 0 0 (51 + blen P) P (idx_write (filter_index (dag_hb rc) kept)) in
    51 + blen P + blen (idx_write (filter_index (dag_hb rc) kept)) < two63 ->
    get_dag hdrdec 2 (Some rc) loads true file outf = (true, Some out) /\
    br_read_all hok hdrdec default_ropts out = Ok (2, [rc], mkscan kept EEof) /\
    (exists st, inspect_car hok hdrdec true out = Ok st /\ is_count st = N.of_nat (length kept)) /\
    (roots_present [rc] kept = true -> N.of_nat (length kept) < two31 -> verify_car hok hdrdec out = Ok tt).
Proof. exact get_dag_v2_closed. Qed.
Print Assumptions C19_get_dag_v2_closed.

(* ---- car concat ------------------------------------------------------------------------------------------------------ *)
(* C19_concat_blocks (partial: executable guard ver <> 2) with its closure: for inputs that each
   have at least one root (carv1.NewCarReader's legacy rule; an input without roots stops the
   command, next theorem) the output is the CARv1 of the first input's roots and the concatenation
   of all inputs' blocks; the BlockReader, inspect --full and verify accept it. *)
Theorem C19_concat_blocks_partial :
  forall hok hdrdec, hdrdec pragma_body = Some ([], 2) ->
  forall ver x xs,
    ver <> 2 ->
    Forall (cin_ok hdrdec) (x :: xs) ->
    Forall (fun y => blocks_ok (cin_blocks y) /\ hashes_ok hok (cin_blocks y)) (x :: xs) ->
    let out := payload_hb (cin_hb x) (all_blocks (x :: xs)) in
    concat_car hdrdec ver (map cin_file (x :: xs)) = (true, Some out) /\
    br_read_all hok hdrdec default_ropts out = Ok (1, cin_roots x, mkscan (all_blocks (x :: xs)) EEof) /\
    (exists st, inspect_car hok hdrdec true out = Ok st /\
                is_count st = N.of_nat (length (all_blocks (x :: xs)))) /\
    (roots_present (cin_roots x) (all_blocks (x :: xs)) = true -> verify_car hok hdrdec out = Ok tt).
Proof. exact concat_v1_closed. Qed.
Print Assumptions C19_concat_blocks_partial.

Theorem C19_concat_refuses_rootless_input :
  forall (_ : bytes -> bytes -> option bool) hdrdec, hdrdec pragma_body = Some ([], 2) ->
  forall hb bs file, hdr_ok hdrdec hb [] -> valid_input hb bs file ->
    concat_input hdrdec file = Err EOther.
Proof. exact concat_input_rootless. Qed.
Print Assumptions C19_concat_refuses_rootless_input.

(* --version 2 (known finding): inputs satisfying every hypothesis above, exit status 0, and an output
   that the BlockReader, inspect --full and verify all reject (a 40-byte header without pragma) *)
Theorem C19_concat_blocks_v2_refuted :
  exists hok hdrdec x xs,
    hdrdec pragma_body = Some ([], 2) /\
    Forall (cin_ok hdrdec) (x :: xs) /\
    Forall (fun y => blocks_ok (cin_blocks y) /\ hashes_ok hok (cin_blocks y)) (x :: xs) /\
    exists out, concat_car hdrdec 2 (map cin_file (x :: xs)) = (true, Some out) /\
      br_read_all hok hdrdec default_ropts out = Err EOther /\
      inspect_car hok hdrdec true out = Err EOther /\
      verify_car hok hdrdec out = Err EOther.
Proof. exact concat_v2_refuted. Qed.
Print Assumptions C19_concat_blocks_v2_refuted.

(* ---- the archive on standard input, through a pipe --------------------------------------------------------- *)
(* `cat x.car | car list` / `car root` (no file argument), with the fix notes/fixes/C19-stdin-pipe-carv2:
   whatever the bytes, what the file argument gives; so every container of a valid archive is listed *)
Theorem C19_list_stdin :
  forall hok hdrdec, hdrdec pragma_body = Some ([], 2) ->
  forall file, list_car_stdin true hok hdrdec file = list_car hok hdrdec file.
Proof. exact list_stdin_fixed. Qed.
Print Assumptions C19_list_stdin.

Theorem C19_list_root_stdin_valid :
  forall hok hdrdec, hdrdec pragma_body = Some ([], 2) ->
  forall hb roots bs file,
    hdr_ok hdrdec hb roots -> blocks_ok bs -> hashes_ok hok bs -> valid_input hb bs file ->
    list_car_stdin true hok hdrdec file = (true, map fst bs) /\
    root_car_stdin true hdrdec file = (true, roots).
Proof. exact list_stdin_valid. Qed.
Print Assumptions C19_list_root_stdin_valid.

(* the code before the fix ([false]): "stdin output = file output" held for a CARv1 only; every CARv2,
   whatever its padding, was refused through a pipe (exit status 1, nothing listed) although the same
   bytes named as a file are listed (the BlockReader seeks over the CARv2 header on an *os.File; a pipe
   cannot seek).  `car inspect` and `car detach-index list` through a pipe refuse every input, before
   and after (their models are the constant refusal). *)
Theorem C19_list_stdin_unfixed_partial :
  forall hok hdrdec, hdrdec pragma_body = Some ([], 2) ->
  forall hb roots bs,
    hdr_ok hdrdec hb roots -> blocks_ok bs -> hashes_ok hok bs -> blen (payload_hb hb bs) < two63 ->
    list_car_stdin false hok hdrdec (payload_hb hb bs) = (true, map fst bs) /\
    root_car_stdin false hdrdec (payload_hb hb bs) = (true, roots).
Proof. exact list_stdin_v1. Qed.
Print Assumptions C19_list_stdin_unfixed_partial.

Theorem C19_list_stdin_unfixed_refuted :
  forall hok hdrdec, hdrdec pragma_body = Some ([], 2) ->
  forall hb roots bs hi lo dpad ioff trailer,
    hdr_ok hdrdec hb roots -> blocks_ok bs -> hashes_ok hok bs ->
    hi < two64 -> lo < two64 -> ioff < two63 ->
    51 + dpad + blen (payload_hb hb bs) + blen trailer < two63 ->
    let file := v2file hi lo dpad ioff (payload_hb hb bs) trailer in
    list_car hok hdrdec file = (true, map fst bs) /\ root_car hdrdec file = (true, roots) /\
    list_car_stdin false hok hdrdec file = (false, []) /\ root_car_stdin false hdrdec file = (false, []).
Proof. exact list_stdin_v2_refused. Qed.
Print Assumptions C19_list_stdin_unfixed_refuted.

(* car list verifies what it lists: a section whose bytes do not hash to its CID ends the listing with
   an error after the CIDs in front of it -- an archive that `car list` lists to the end is one whose
   blocks the BlockReader accepted *)
Theorem C19_list_rejects_corrupt_block :
  forall hok hdrdec, hdrdec pragma_body = Some ([], 2) ->
  forall hb roots pre c d rest,
    hdr_ok hdrdec hb roots -> blocks_ok pre -> hashes_ok hok pre ->
    blk_ok default_maxs (c, d) -> ScanTrunc.hash_bad hok (c, d) ->
    let file := ld hb ++ enc_sections pre ++ enc_section c d ++ rest in
    list_car hok hdrdec file = (false, map fst pre) /\
    list_car_stdin true hok hdrdec file = (false, map fst pre).
Proof. exact list_car_corrupt. Qed.
Print Assumptions C19_list_rejects_corrupt_block.

(* ---- car debug | car compile ------------------------------------------------------------------------------- *)
(* compile writes the distinct blocks in the iteration order of a Go map: the statement is over EVERY
   order that is a permutation of the first occurrences.  Each such output is the CARv1 of the roots
   and exactly those blocks (same roots, same block multiset up to duplicate sections), accepted by the
   BlockReader, inspect --full, and -- when the input's roots were among its blocks -- verify. *)
Theorem C19_compile_any_order :
  forall hok hdrdec, hdrdec pragma_body = Some ([], 2) ->
  forall roots (bs order : list block),
    hdr_ok hdrdec (enc_header (Some roots) 1) roots ->
    blocks_ok bs -> hashes_ok hok bs ->
    Permutation order (first_occ bs) ->
    let out := compile_out roots order in
    br_read_all hok hdrdec default_ropts out = Ok (1, roots, mkscan order EEof) /\
    (exists st, inspect_car hok hdrdec true out = Ok st /\ is_roots st = roots /\
                is_count st = N.of_nat (length (first_occ bs))) /\
    (roots <> [] -> roots_present roots bs = true -> verify_car hok hdrdec out = Ok tt).
Proof. exact compile_any_order. Qed.
Print Assumptions C19_compile_any_order.

(* the order the executable model compares in (ascending CID bytes) is one of them *)
Theorem C19_compile_model_order : forall l : list block, Permutation (sort_blocks l) l.
Proof. exact sort_blocks_perm. Qed.
Print Assumptions C19_compile_model_order.

(* ---- car list --unixfs ---------------------------------------------------------------------------------------- *)
(* over a DAG whose nodes are all present and decodable the listing succeeds and has one path per
   named entry; a missing node ends it, with the paths up to and including that entry printed *)
Theorem C19_list_unixfs_whole : forall t prefix, uwhole t = true ->
  snd (ulist_tree prefix t) = true /\ length (fst (ulist_tree prefix t)) = ucount t.
Proof. exact ulist_whole. Qed.
Print Assumptions C19_list_unixfs_whole.

Theorem C19_list_unixfs_stops_at_missing : forall prefix n rest,
  ulist_tree prefix (UDir ((n, UMissing) :: rest)) = ([ujoin prefix n], false).
Proof. exact ulist_stops_at_missing. Qed.
Print Assumptions C19_list_unixfs_stops_at_missing.
